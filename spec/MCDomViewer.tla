----------------------------- MODULE MCDomViewer -----------------------------
(* All sequences of views over a family of small DOMs sharing referents. *)
EXTENDS DomViewer

N(r, k, p) == [ref |-> r, kids |-> k, refp |-> p, sslen |-> -1]
Doms == { << N(1, <<2, 3>>, <<>>), N(2, <<>>, <<3>>), N(3, <<>>, <<5>>) >>,
          << N(1, <<3, 2>>, <<0>>), N(2, <<4>>, <<1>>), N(3, <<>>, <<4>>), N(4, <<>>, <<>>) >>,
          << N(5, <<4>>, <<2>>), N(4, <<6>>, <<>>), N(6, <<>>, <<5, 0, 7>>) >>,
          << N(7, <<>>, <<7>>) >> }
RootOf(d) == d[1].ref
Next == \E d \in Doms : \/ View(d, <<RootOf(d)>>)
                        \/ View(d, Kids(d, RootOf(d)))
Spec == Init /\ [][Next]_vars

\* the first view of a fresh viewer numbers the walk 0, 1, 2, ... in walk order
FirstViewIsWalkOrder ==
    \A d \in Doms : LET w == Walk(d, <<RootOf(d)>>)
                        m == Meet([x \in {} |-> 0], 0, w)
                    IN \A i \in 1..Len(w) : m.ids[w[i]] = i - 1
ASSUME FirstViewIsWalkOrder
=============================================================================

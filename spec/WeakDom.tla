------------------------------ MODULE WeakDom ------------------------------
(***************************************************************************)
(* Reference semantics of rbx_dom_weak::WeakDom (rbx_dom_weak/src/dom.rs). *)
(*                                                                         *)
(* One action per public mutating call.  The state is what the public API  *)
(* exposes: which DOM answers get_by_ref(r), Instance::parent/children,    *)
(* name/class/properties (folded into `label`), Ref-typed properties       *)
(* (`refp`), the "UniqueId" property (`uid`) and - through hook H2 - the   *)
(* bookkeeping set WeakDom.unique_ids (`uidset`).                          *)
(*                                                                         *)
(* Every action is split into a structural part XxxS (deterministic) and a *)
(* UniqueId part XxxU, a *relation* on uid'/uidset'/seen' that leaves open  *)
(* exactly what the property C12 leaves open (which fresh id is drawn, and *)
(* which of several equal-id instances entering together keeps the id).    *)
(* The model-checking module enumerates uid' from a candidate set; the     *)
(* trace module binds uid' to the logged value.  Both then evaluate XxxU.  *)
(***************************************************************************)
EXTENDS Integers, Sequences, FiniteSets, TLC

CONSTANTS MaxRef,      \* referents are 1..MaxRef, allocated in increasing order
          NumDoms,     \* DOM identities 1..NumDoms
          NumSlots     \* number of Ref-typed property slots per instance

Refs   == 1..MaxRef
Doms   == 1..NumDoms
Slots  == 1..NumSlots
Null   == 0            \* Ref::none()
Absent == -1           \* the Ref property is not present on the instance
NoDom  == 0
NoUid  == 0            \* no "UniqueId" property
NoLabel == 0
Rootless == -1        \* root of a DOM made by WeakDom::default(): the DOM exists, it has no root instance

VARIABLES owner,    \* [Refs -> Doms \cup {NoDom}]  which DOM's get_by_ref answers
          parent,   \* [Refs -> Refs \cup {Null}]
          kids,     \* [Refs -> Seq(Refs)]          ordered children
          label,    \* [Refs -> Int]                (class, name, plain properties)
          refp,     \* [Refs -> [Slots -> Refs \cup {Null, Absent}]]
          uid,      \* [Refs -> Int]                UniqueId property (token), NoUid if none
          uidset,   \* [Doms -> SUBSET Int]         WeakDom.unique_ids
          root,     \* [Doms -> Refs \cup {Null, Rootless}]   Null: DOM not created yet
          nextRef,  \* next unused referent
          seen      \* every UniqueId token that ever appeared (for freshness)

svars == <<owner, parent, kids, label, refp, root, nextRef>>
uvars == <<uid, uidset, seen>>
vars  == <<owner, parent, kids, label, refp, root, nextRef, uid, uidset, seen>>

-----------------------------------------------------------------------------
(* helpers *)

SeqSet(s) == {s[i] : i \in 1..Len(s)}
NoDup(s)  == \A i, j \in 1..Len(s) : i # j => s[i] # s[j]
Without(s, x) == SelectSeq(s, LAMBDA y : y # x)
IndexOf(s, x) == CHOOSE i \in 1..Len(s) : s[i] = x
AbsentAll == [s \in Slots |-> Absent]

In(d) == {r \in Refs : owner[r] = d}
Live  == {r \in Refs : owner[r] # NoDom}

\* breadth-first listing of the forest below the queue q (documented order of
\* builder flattening and of the clone queue)
RECURSIVE Bfs(_)
Bfs(q) == IF q = <<>> THEN <<>> ELSE <<Head(q)>> \o Bfs(Tail(q) \o kids[Head(q)])

Desc(r) == SeqSet(Bfs(<<r>>))          \* r and all its descendants

\* ancestors through parent pointers, bounded so that a cyclic state cannot
\* send TLC into unbounded recursion
RECURSIVE AncN(_, _)
AncN(r, n) == IF n = 0 \/ parent[r] = Null THEN {} ELSE {parent[r]} \cup AncN(parent[r], n - 1)
Anc(r) == AncN(r, MaxRef + 1)

Count(s, x) == Cardinality({i \in 1..Len(s) : s[i] = x})

-----------------------------------------------------------------------------
(* Builders: a tree flattened breadth-first; node i has parent index pi       *)
(* (0 for the builder root), children in index order.                        *)

BuilderOK(b) ==
    /\ Len(b) >= 1
    /\ b[1].pi = 0
    /\ \A i \in 2..Len(b) : b[i].pi \in 1..(i - 1)
    /\ \A i \in 2..(Len(b) - 1) : b[i].pi <= b[i + 1].pi

ChildIdx(b, i) == {j \in 1..Len(b) : b[j].pi = i}

-----------------------------------------------------------------------------
(* The UniqueId rule (inner_insert / inner_remove), as a relation.           *)
(*   E    refs entering DOM de, with the ids they bring: pu[r]              *)
(*   L    refs leaving DOM dl (dl = NoDom if none leave)                     *)
(*   Gone refs that cease to exist (destroy)                                 *)

UidRule(E, pu, de, L, dl, Gone) ==
    LET base(d)  == IF d = dl THEN uidset[d] \ {uid[r] : r \in L} ELSE uidset[d]
        brought  == {pu[r] : r \in E} \ {NoUid}
        group(u) == {r \in E : pu[r] = u}
    IN
    /\ \A r \in Refs \ (E \cup Gone) : uid'[r] = uid[r]
    /\ \A r \in Gone : uid'[r] = NoUid
    /\ \A r \in E :
         IF pu[r] = NoUid THEN uid'[r] = NoUid
         ELSE \/ uid'[r] = pu[r]                                    \* preserved exactly
              \/ /\ uid'[r] # NoUid                                 \* or freshly generated
                 /\ uid'[r] \notin seen
                 /\ uid'[r] \notin brought
    /\ \A r1, r2 \in E : (r1 # r2 /\ uid'[r1] # NoUid) => uid'[r1] # uid'[r2]
    /\ \A r \in E : pu[r] \in base(de) => uid'[r] # pu[r]           \* collision => replaced
    /\ \A u \in brought : u \notin base(de) => \E r \in group(u) : uid'[r] = u
                                                                    \* replaced ONLY on collision
    /\ uidset' = [d \in Doms |->
                    IF d = de THEN base(d) \cup ({uid'[r] : r \in E} \ {NoUid}) ELSE base(d)]
    /\ seen' = seen \cup brought \cup ({uid'[r] : r \in E} \ {NoUid})

UidUnchanged == UNCHANGED <<uid, uidset, seen>>

-----------------------------------------------------------------------------
(* insert / new                                                              *)

NewRef(i) == nextRef + i - 1

InsertS(d, p, b) ==
    LET n == Len(b)
        new == nextRef..(nextRef + n - 1)
        idx(r) == r - nextRef + 1
    IN
    /\ BuilderOK(b)
    /\ nextRef + n - 1 <= MaxRef
    /\ root[d] # Null
    /\ p = Null \/ (p \in Refs /\ owner[p] = d)
    /\ owner'  = [r \in Refs |-> IF r \in new THEN d ELSE owner[r]]
    /\ parent' = [r \in Refs |-> IF r \in new
                                 THEN (IF b[idx(r)].pi = 0 THEN p ELSE NewRef(b[idx(r)].pi))
                                 ELSE parent[r]]
    /\ kids'   = [r \in Refs |->
                    IF r \in new
                    THEN LET c == ChildIdx(b, idx(r))
                             lo == CHOOSE j \in c : \A k \in c : j <= k
                         IN [k \in 1..Cardinality(c) |-> NewRef(lo + k - 1)]
                    ELSE IF r = p THEN Append(kids[r], NewRef(1)) ELSE kids[r]]
    /\ label'  = [r \in Refs |-> IF r \in new THEN b[idx(r)].label ELSE label[r]]
    /\ refp'   = [r \in Refs |-> IF r \in new THEN b[idx(r)].refp ELSE refp[r]]
    /\ nextRef' = nextRef + n
    /\ UNCHANGED root

\* InstanceBuilder::with_referent lets the caller choose the referent of a node.  A referent the DOM already
\* answers for cannot be inserted a second time: the call panics (documented since the "fix:" commit for the silent
\* replacement it used to perform).  What the documentation leaves open is how much of the builder is in place by
\* then: the code inserts node by node, so the j = k - 1 nodes before node k in breadth-first order are there; an
\* implementation that validated the whole builder first would leave none (j = 0).  Either way the result is the
\* insertion of a prefix of the builder - a well-formed forest.
InsertCollideS(d, p, b, k, c) ==
    /\ BuilderOK(b) /\ k \in 1..Len(b)
    /\ c \in Refs /\ owner[c] = d
    /\ root[d] # Null
    /\ p = Null \/ (p \in Refs /\ owner[p] = d)
    /\ \E j \in 0..(k - 1) : IF j = 0 THEN UNCHANGED svars ELSE InsertS(d, p, SubSeq(b, 1, j))

InsertU(d, p, b) ==
    LET n == Len(b)
        new == nextRef..(nextRef + n - 1)
    IN UidRule(new, [r \in new |-> b[r - nextRef + 1].uid], d, {}, NoDom, {})

\* WeakDom::new(builder) is insert(Ref::none(), builder) into an empty DOM whose
\* root_ref is the builder's referent.
NewS(d, b) ==
    /\ root[d] = Null
    /\ root' = [root EXCEPT ![d] = nextRef]
    /\ LET n == Len(b)
           new == nextRef..(nextRef + n - 1)
           idx(r) == r - nextRef + 1
       IN
       /\ BuilderOK(b)
       /\ nextRef + n - 1 <= MaxRef
       /\ owner'  = [r \in Refs |-> IF r \in new THEN d ELSE owner[r]]
       /\ parent' = [r \in Refs |-> IF r \in new
                                    THEN (IF b[idx(r)].pi = 0 THEN Null ELSE NewRef(b[idx(r)].pi))
                                    ELSE parent[r]]
       /\ kids'   = [r \in Refs |->
                       IF r \in new
                       THEN LET c == ChildIdx(b, idx(r))
                                lo == CHOOSE j \in c : \A k \in c : j <= k
                            IN [k \in 1..Cardinality(c) |-> NewRef(lo + k - 1)]
                       ELSE kids[r]]
       /\ label'  = [r \in Refs |-> IF r \in new THEN b[idx(r)].label ELSE label[r]]
       /\ refp'   = [r \in Refs |-> IF r \in new THEN b[idx(r)].refp ELSE refp[r]]
       /\ nextRef' = nextRef + n

NewU(d, b) == InsertU(d, Null, b)
\* (the UniqueId part follows the prefix that was inserted: nextRef' - nextRef nodes)
InsertCollideU(d, p, b, k) == IF nextRef' = nextRef THEN UidUnchanged ELSE InsertU(d, p, SubSeq(b, 1, nextRef' - nextRef))

\* WeakDom::default(): an empty DOM without a root.  root_ref() answers Ref::none() for ever; everything put into it
\* later (insert under Ref::none(), clone_into_external, transfer under one of those) is an ordinary orphan tree,
\* and every rule that speaks about "the destination DOM" applies to it as to any other
DefaultS(d) ==
    /\ root[d] = Null
    /\ root' = [root EXCEPT ![d] = Rootless]
    /\ UNCHANGED <<owner, parent, kids, label, refp, nextRef>>

-----------------------------------------------------------------------------
(* destroy                                                                   *)

DestroyS(d, r) ==
    LET G == Desc(r) IN
    /\ r \in Refs /\ owner[r] = d /\ r # root[d]
    /\ owner'  = [x \in Refs |-> IF x \in G THEN NoDom ELSE owner[x]]
    /\ parent' = [x \in Refs |-> IF x \in G THEN Null ELSE parent[x]]
    /\ kids'   = [x \in Refs |-> IF x \in G THEN <<>>
                                 ELSE IF x = parent[r] THEN Without(kids[x], r) ELSE kids[x]]
    /\ label'  = [x \in Refs |-> IF x \in G THEN NoLabel ELSE label[x]]
    /\ refp'   = [x \in Refs |-> IF x \in G THEN AbsentAll ELSE refp[x]]
    /\ UNCHANGED <<root, nextRef>>

DestroyU(d, r) == UidRule({}, <<>>, NoDom, Desc(r), d, Desc(r))

-----------------------------------------------------------------------------
(* transfer (between two DOMs) and transfer_within                           *)

TransferS(d, r, e, p) ==
    LET G == Desc(r) IN
    /\ d # e
    /\ r \in Refs /\ owner[r] = d /\ r # root[d]
    /\ p \in Refs /\ owner[p] = e
    /\ owner'  = [x \in Refs |-> IF x \in G THEN e ELSE owner[x]]
    /\ parent' = [parent EXCEPT ![r] = p]
    /\ kids'   = [x \in Refs |-> IF x = p THEN Append(kids[x], r)
                                 ELSE IF x = parent[r] THEN Without(kids[x], r) ELSE kids[x]]
    /\ UNCHANGED <<label, refp, root, nextRef>>

TransferU(d, r, e, p) ==
    LET G == Desc(r) IN UidRule(G, [x \in G |-> uid[x]], e, G, d, {})

\* Documented preconditions: r and p are in the DOM, r is not the root.  Since the
\* "fix:" commit for the cycle defect, p in r's own subtree is a documented panic;
\* TransferWithinRejected describes that call (no state change).
TransferWithinS(d, r, p) ==
    /\ r \in Refs /\ owner[r] = d /\ r # root[d]
    /\ p \in Refs /\ owner[p] = d
    /\ p \notin Desc(r)
    /\ parent' = [parent EXCEPT ![r] = p]
    /\ kids'   = [x \in Refs |->
                    IF x = p THEN Append(Without(kids[x], r), r)
                    ELSE IF x = parent[r] THEN Without(kids[x], r) ELSE kids[x]]
    /\ UNCHANGED <<owner, label, refp, root, nextRef>>

TransferWithinRejected(d, r, p) ==
    /\ r \in Refs /\ owner[r] = d /\ r # root[d]
    /\ p \in Desc(r)
    /\ UNCHANGED vars

\* WeakDom::reserve(additional): a capacity hint.  Nothing a caller can observe changes - in particular not the
\* bookkeeping of UniqueIds, on which every later insert / clone / transfer relies.
ReserveS(d) == root[d] # Null /\ UNCHANGED vars

\* Calls outside the documented preconditions that the documentation promises to refuse with a panic and that
\* are refused before anything is touched: the root (for a rootless DOM: Ref::none()) cannot be destroyed or moved,
\* an instance the DOM does not hold cannot be destroyed, moved, cloned or walked from.
RootKinds    == {"destroy_root", "transfer_root", "transfer_within_root"}
MissingKinds == {"destroy_missing", "transfer_within_missing", "descendants_of_missing", "clone_missing"}
BadCall(kind, d, r) ==
    /\ root[d] # Null
    /\ kind \in RootKinds \cup MissingKinds
    /\ kind \in RootKinds => r = (IF root[d] \in Refs THEN root[d] ELSE Null)
    /\ kind \in MissingKinds => (r \in Refs /\ owner[r] # d)
    /\ UNCHANGED vars

-----------------------------------------------------------------------------
(* clone_within / clone_into_external / clone_multiple_into_external         *)
(* rs: sequence of subtree roots in DOM d; e: destination DOM (e = d for     *)
(* clone_within).  The roots need not be disjoint: the implementation works  *)
(* through a queue of (copy of the parent, original child) pairs, so an      *)
(* instance that is reached twice - a root listed twice, a root inside       *)
(* another root's subtree - is copied twice, each copy complete.  Ref        *)
(* properties are rewritten on the copy recorded LAST for each original      *)
(* only; an earlier copy of a twice-copied original keeps its Ref values     *)
(* as they were (what the code does; with disjoint roots there is no such    *)
(* copy and the rule is the documented one).                                 *)

CloneOrder(rs) == Bfs(rs)

DisjointRoots(rs) ==
    /\ NoDup(rs)
    /\ \A i, j \in 1..Len(rs) : i # j => rs[i] \notin Desc(rs[j])

\* the queue discipline, with the position of the item that enqueued each item (0 for the roots)
RECURSIVE CloneItemsFrom(_, _)
CloneItemsFrom(items, i) ==
    IF i > Len(items) THEN items
    ELSE CloneItemsFrom(items \o [k \in 1..Len(kids[items[i].o]) |-> [o |-> kids[items[i].o][k], pp |-> i]], i + 1)
CloneItems(rs) == CloneItemsFrom([i \in 1..Len(rs) |-> [o |-> rs[i], pp |-> 0]], 1)

CloneS(d, rs, e) ==
    LET items == CloneItems(rs)
        n     == Len(items)
        new   == nextRef..(nextRef + n - 1)
        pos(x) == x - nextRef + 1
        src(x) == items[pos(x)].o                        \* original of a copy
        copiesOf(o) == {i \in 1..n : items[i].o = o}
        copy(o) == NewRef(CHOOSE i \in copiesOf(o) : \A j \in copiesOf(o) : j <= i)   \* the copy recorded last
        cloned == {items[i].o : i \in 1..n}
        kidsOfPos(i) == SelectSeq([j \in 1..n |-> j], LAMBDA j : items[j].pp = i)
    IN
    /\ Len(rs) >= 1
    /\ \A i \in 1..Len(rs) : rs[i] \in Refs /\ owner[rs[i]] = d
    /\ (e = d => Len(rs) = 1)
    /\ root[e] # Null
    /\ nextRef + n - 1 <= MaxRef
    /\ owner'  = [x \in Refs |-> IF x \in new THEN e ELSE owner[x]]
    /\ parent' = [x \in Refs |-> IF x \in new
                                 THEN (IF items[pos(x)].pp = 0 THEN Null ELSE NewRef(items[pos(x)].pp))
                                 ELSE parent[x]]
    /\ kids'   = [x \in Refs |-> IF x \in new
                                 THEN [k \in 1..Len(kidsOfPos(pos(x))) |-> NewRef(kidsOfPos(pos(x))[k])]
                                 ELSE kids[x]]
    /\ label'  = [x \in Refs |-> IF x \in new THEN label[src(x)] ELSE label[x]]
    /\ refp'   = [x \in Refs |->
                    IF x \in new
                    THEN [s \in Slots |->
                            LET v == refp[src(x)][s] IN
                            IF v = Absent THEN Absent
                            ELSE IF copy(src(x)) # x THEN v               \* an earlier copy of a twice-copied original
                            ELSE IF v \in cloned THEN copy(v)             \* into the cloned set
                            ELSE IF v \in Refs /\ owner[v] = e THEN v     \* exists in destination
                            ELSE Null]
                    ELSE refp[x]]
    /\ nextRef' = nextRef + n
    /\ UNCHANGED root

CloneRet(rs) == [i \in 1..Len(rs) |-> NewRef(i)]      \* the roots are copied first, in list order

CloneU(d, rs, e) ==
    LET order == CloneOrder(rs)
        n     == Len(order)
        new   == nextRef..(nextRef + n - 1)
    IN UidRule(new, [x \in new |-> uid[order[x - nextRef + 1]]], e, {}, NoDom, {})

-----------------------------------------------------------------------------
(* into_raw followed by from_raw: the DOM is taken apart into (root, instance map) and put back    *)
(* together.  Nothing observable changes; the bookkeeping set is rebuilt from the instances'       *)
(* UniqueId properties (from_raw panics on duplicates, which UidDistinct excludes).                *)

RawTripS(d) ==
    /\ root[d] \in Refs                \* from_raw requires the root to be in the instance map
    /\ UNCHANGED <<owner, parent, kids, label, refp, root, nextRef>>

RawTripU(d) ==
    /\ uid' = uid
    /\ uidset' = [x \in Doms |-> IF x = d THEN {uid[r] : r \in In(d)} \ {NoUid} ELSE uidset[x]]
    /\ seen' = seen

-----------------------------------------------------------------------------
(* Direct mutation of a Ref property through get_by_ref_mut (public field).  *)

SetRefS(r, s, v) ==
    /\ r \in Refs /\ owner[r] # NoDom
    /\ s \in Slots
    /\ v \in (1..(nextRef - 1)) \cup {Null}
    /\ refp' = [refp EXCEPT ![r][s] = v]
    /\ UNCHANGED <<owner, parent, kids, label, root, nextRef>>

-----------------------------------------------------------------------------
(* The descendant iterator: any order that is top-down and exactly-once.     *)

TopDown(start, yield) ==
    /\ NoDup(yield)
    /\ SeqSet(yield) = Desc(start)
    /\ \A i \in 1..Len(yield) :
          yield[i] = start \/ \E j \in 1..(i - 1) : yield[j] = parent[yield[i]]

-----------------------------------------------------------------------------
(* Initial state: nothing exists.                                            *)

Init ==
    /\ owner  = [r \in Refs |-> NoDom]
    /\ parent = [r \in Refs |-> Null]
    /\ kids   = [r \in Refs |-> <<>>]
    /\ label  = [r \in Refs |-> NoLabel]
    /\ refp   = [r \in Refs |-> AbsentAll]
    /\ uid    = [r \in Refs |-> NoUid]
    /\ uidset = [d \in Doms |-> {}]
    /\ root   = [d \in Doms |-> Null]
    /\ nextRef = 1
    /\ seen   = {}

-----------------------------------------------------------------------------
(* Invariants                                                                *)

TypeOK ==
    /\ owner  \in [Refs -> Doms \cup {NoDom}]
    /\ parent \in [Refs -> Refs \cup {Null}]
    /\ \A r \in Refs : SeqSet(kids[r]) \subseteq Refs
    /\ \A r \in Refs : \A s \in Slots : refp[r][s] \in Refs \cup {Null, Absent}
    /\ root   \in [Doms -> Refs \cup {Null, Rootless}]
    /\ nextRef \in 1..(MaxRef + 1)

\* C09: every DOM is a well-formed forest.  Stated over explicit functions so that the trace
\* module can also evaluate it on a logged state that the specification refused to adopt.
RECURSIVE AncOf(_, _, _)
AncOf(pf, r, n) == IF n = 0 \/ pf[r] = Null \/ pf[r] \notin Refs THEN {}
                   ELSE {pf[r]} \cup AncOf(pf, pf[r], n - 1)

WF(o, pf, kf, rt) ==
    LET live == {r \in Refs : o[r] # NoDom} IN
    /\ \A r \in live : \A i \in 1..Len(kf[r]) :                       \* ChildLinks
           kf[r][i] \in Refs /\ o[kf[r][i]] = o[r] /\ pf[kf[r][i]] = r
    /\ \A r \in live : pf[r] # Null =>                                \* ParentLinks
           pf[r] \in Refs /\ o[pf[r]] = o[r] /\ Count(kf[pf[r]], r) = 1
    /\ \A r \in live : r \notin AncOf(pf, r, MaxRef + 1)              \* NoCycle
    /\ \A d \in Doms : rt[d] \notin {Null, Rootless} =>                  \* RootOK
           rt[d] \in Refs /\ o[rt[d]] = d /\ pf[rt[d]] = Null

ChildLinks  == \A r \in Live : \A i \in 1..Len(kids[r]) :
                  owner[kids[r][i]] = owner[r] /\ parent[kids[r][i]] = r
ParentLinks == \A r \in Live : parent[r] # Null =>
                  owner[parent[r]] = owner[r] /\ Count(kids[parent[r]], r) = 1
NoCycle     == \A r \in Live : r \notin Anc(r)
RootOK      == \A d \in Doms : root[d] \in Refs => owner[root[d]] = d /\ parent[root[d]] = Null
DeadClean   == \A r \in Refs : owner[r] = NoDom =>
                  parent[r] = Null /\ kids[r] = <<>> /\ uid[r] = NoUid /\ refp[r] = AbsentAll
Unborn      == \A r \in Refs : r >= nextRef => owner[r] = NoDom
WalkOK      == \A r \in Live : TopDown(r, Bfs(<<r>>))     \* the reference walk satisfies the iterator contract

WellFormed == WF(owner, parent, kids, root) /\ DeadClean /\ Unborn

\* C12, over explicit functions (used by the trace module on a decoded DOM before adopting it)
UidOK(o, u, us) ==
    /\ \A r1, r2 \in Refs : (r1 # r2 /\ o[r1] # NoDom /\ o[r1] = o[r2] /\ u[r1] # NoUid) => u[r1] # u[r2]
    /\ \A d \in Doms : us[d] = {u[r] : r \in {r \in Refs : o[r] = d}} \ {NoUid}

\* C12
UidDistinct == \A r1, r2 \in Live :
                  (r1 # r2 /\ owner[r1] = owner[r2] /\ uid[r1] # NoUid) => uid[r1] # uid[r2]
UidSetExact == \A d \in Doms : uidset[d] = {uid[r] : r \in In(d)} \ {NoUid}
UidSeen     == \A r \in Refs : uid[r] # NoUid => uid[r] \in seen

=============================================================================

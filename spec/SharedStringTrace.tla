-------------------------- MODULE SharedStringTrace --------------------------
(***************************************************************************)
(* Trace validation for SharedString: controlled schedules (every action   *)
(* logged with the complete projected table/handle state) and barrier      *)
(* snapshots of free-running threads ("observe": the logged state is       *)
(* adopted and must satisfy every invariant of SharedString.tla).          *)
(***************************************************************************)
EXTENDS SharedString, Json, IOUtils

Rec == ndJsonDeserialize(IOEnv.TRACE)

VARIABLE l
tvars == <<table, strong, bcontent, slot, made, pending, nextBuf, ops, l>>
Ev == Rec[l]

\* buffers whose bytes are observable: through a handle or through the table's hash key
\* (a buffer that only a thread inside the window still refers to has no observable bytes)
Referenced(P) == {P.slot[t][i] : t \in Threads, i \in Slots} \cup {P.table[c] : c \in Contents}

PostMatches ==
    LET P == Ev.post IN
    /\ Ev.outcome = "ok"
    /\ P.unknown_entries = 0
    /\ slot'    = P.slot
    /\ made'    = P.made
    /\ pending' = P.pending
    /\ table'   = P.table
    /\ strong'  = P.strong
    /\ \A b \in Referenced(P) \ {NoBuf} : bcontent'[b] = P.bcontent[b]

Reset ==
    /\ Ev.table_len = 0          \* the process-wide table is empty whenever an episode starts
    /\ table'    = [c \in Contents |-> NoBuf]
    /\ strong'   = [b \in Bufs |-> 0]
    /\ bcontent' = [b \in Bufs |-> 0]
    /\ slot'     = [t \in Threads |-> [i \in Slots |-> NoBuf]]
    /\ made'     = [t \in Threads |-> [i \in Slots |-> 0]]
    /\ pending'  = [t \in Threads |-> NoBuf]
    /\ nextBuf'  = 1
    /\ ops'      = [t \in Threads |-> 0]

Observe ==
    LET P == Ev.post IN
    /\ Ev.data_errors = <<>>
    /\ P.unknown_entries = 0
    \* pair phase of the driver: each time the only two holders of a content had both returned from drop, that
    \* content was quiescent - TableLive then says the table has no entry for it; the driver counts the times it had
    /\ ("pair_stale" \in DOMAIN Ev => Ev.pair_stale = 0)
    \* burst phase of the driver: all threads interned the same content at the same moment and held their handles:
    \* Dedup says they share one buffer; the driver counts the times they did not
    /\ ("burst_split" \in DOMAIN Ev => Ev.burst_split = 0)
    \* churn phase: a thread held a handle of a content and made a second one while its partner kept making and
    \* dropping handles of the same content: two live handles with equal contents - one buffer (Dedup)
    /\ ("churn_split" \in DOMAIN Ev => Ev.churn_split = 0)
    /\ Ev.final => \A t \in Threads, i \in Slots : P.slot[t][i] = NoBuf
    /\ slot' = P.slot /\ made' = P.made /\ pending' = P.pending /\ table' = P.table
    /\ strong' = P.strong /\ bcontent' = P.bcontent /\ nextBuf' = P.next
    /\ UNCHANGED ops

Explain ==
    CASE Ev.op = "reset"   -> Reset
      [] Ev.op = "new"     -> New(Ev.t, Ev.c, Ev.i) /\ PostMatches
      [] Ev.op = "clone"   -> Clone(Ev.t, Ev.i, Ev.j) /\ PostMatches
      [] Ev.op = "release" -> DropRelease(Ev.t, Ev.i) /\ PostMatches
      [] Ev.op = "cleanup" -> DropCleanup(Ev.t) /\ PostMatches
      [] Ev.op = "observe" -> Observe
      [] OTHER -> FALSE

Match == l <= Len(Rec) /\ l' = l + 1 /\ Explain

NextReset(k) ==
    LET later == {j \in (k + 1)..Len(Rec) : Rec[j].op = "reset"} IN
    IF later = {} THEN Len(Rec) + 1 ELSE CHOOSE j \in later : \A i \in later : j <= i

Skip ==
    /\ l <= Len(Rec)
    /\ ~ENABLED Match
    /\ PrintT(<<"MISMATCH", l, Ev.ep, Ev.op, IF "outcome" \in DOMAIN Ev THEN Ev.outcome ELSE "-">>)
    /\ l' = NextReset(l)
    /\ UNCHANGED vars

Finish ==
    /\ l = Len(Rec) + 1
    /\ PrintT(<<"TRACE_DONE", Len(Rec)>>)
    /\ l' = l + 1
    /\ UNCHANGED vars

TraceInit == Init /\ l = 1
TraceSpec == TraceInit /\ [][Match \/ Skip \/ Finish]_tvars
=============================================================================

----------------------------- MODULE UniqueIdGen -----------------------------
(***************************************************************************)
(* rbx_types::UniqueId::now(): a process-global AtomicU32 `INDEX` advanced *)
(* with fetch_add.  The id is (index, time, random); only the index makes  *)
(* freshly generated ids distinct, so the model keeps the index alone.     *)
(* Impl = "fetch_add"  one atomic read-modify-write per call (the code)    *)
(* Impl = "load_store" separate load and store (what a careless edit would *)
(*                     turn it into; kept to show that TLC sees the race)  *)
(* The counter wraps at Modulus (2^32 in the code): distinctness is only   *)
(* claimed while fewer than Modulus calls have been made.                  *)
(***************************************************************************)
EXTENDS Integers, Sequences, FiniteSets

CONSTANTS NumThreads, MaxCalls, Modulus, Impl

Threads == 1..NumThreads

VARIABLES counter,   \* INDEX
          got,       \* [Threads -> Seq(Nat)]  indices returned to each thread, in program order
          tmp        \* [Threads -> Nat \cup {-1}]  value loaded but not yet stored (load_store only)

vars == <<counter, got, tmp>>

Total == LET RECURSIVE Sum(_) Sum(t) == IF t = 0 THEN 0 ELSE Len(got[t]) + Sum(t - 1) IN Sum(NumThreads)

FetchAdd(t) ==
    /\ Impl = "fetch_add"
    /\ Len(got[t]) < MaxCalls
    /\ got' = [got EXCEPT ![t] = Append(@, counter)]
    /\ counter' = (counter + 1) % Modulus
    /\ UNCHANGED tmp

Load(t) ==
    /\ Impl = "load_store"
    /\ tmp[t] = -1 /\ Len(got[t]) < MaxCalls
    /\ tmp' = [tmp EXCEPT ![t] = counter]
    /\ UNCHANGED <<counter, got>>

Store(t) ==
    /\ Impl = "load_store"
    /\ tmp[t] # -1
    /\ counter' = (tmp[t] + 1) % Modulus
    /\ got' = [got EXCEPT ![t] = Append(@, tmp[t])]
    /\ tmp' = [tmp EXCEPT ![t] = -1]

Init == counter = 0 /\ got = [t \in Threads |-> <<>>] /\ tmp = [t \in Threads |-> -1]
Next == \E t \in Threads : FetchAdd(t) \/ Load(t) \/ Store(t)
Spec == Init /\ [][Next]_vars

Calls == {<<t, i>> : t \in Threads, i \in 1..MaxCalls}
Made  == {c \in Calls : c[2] <= Len(got[c[1]])}

\* freshly generated ids never repeat (within the wrap-around bound)
Distinct == Total <= Modulus =>
               \A a, b \in Made : a # b => got[a[1]][a[2]] # got[b[1]][b[2]]

\* a thread sees increasing indices until the counter wraps
Increasing == Total <= Modulus =>
               \A t \in Threads : \A i \in 1..(Len(got[t]) - 1) : got[t][i] < got[t][i + 1]
=============================================================================

---------------------------- MODULE DomViewerTrace ----------------------------
EXTENDS DomViewer, Json, IOUtils
Rec == ndJsonDeserialize(IOEnv.TRACE)
VARIABLE l
Ev == Rec[l]
tvars == <<ids, next, l>>

Roots == IF Ev.op = "view" THEN <<Ev.root>> ELSE Kids(Ev.dom, Ev.root)
Explain ==
    CASE Ev.op = "reset" -> ids' = [x \in {} |-> 0] /\ next' = 0
      [] Ev.op \in {"view", "view_children"} ->
            /\ View(Ev.dom, Roots)
            /\ Ev.out = ViewResult(Ev.dom, Roots)
      [] OTHER -> FALSE

Match == l <= Len(Rec) /\ l' = l + 1 /\ Explain
Skip == /\ l <= Len(Rec) /\ ~ENABLED Match
        /\ PrintT(<<"MISMATCH", l, Ev.ep, Ev.op>>)
        /\ l' = (LET later == {j \in (l + 1)..Len(Rec) : Rec[j].op = "reset"} IN
                 IF later = {} THEN Len(Rec) + 1 ELSE CHOOSE j \in later : \A i \in later : j <= i)
        /\ UNCHANGED <<ids, next>>
Finish == l = Len(Rec) + 1 /\ PrintT(<<"TRACE_DONE", Len(Rec)>>) /\ l' = l + 1 /\ UNCHANGED <<ids, next>>
TraceSpec == Init /\ l = 1 /\ [][Match \/ Skip \/ Finish]_tvars
=============================================================================

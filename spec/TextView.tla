------------------------------ MODULE TextView ------------------------------
(***************************************************************************)
(* rbx_binary::text_format::DecodedModel - the debugging decoder behind    *)
(* `rbx_util view-binary` - is a second reader of the binary format inside *)
(* the repository.  For every file the serializer writes, the structure it *)
(* reports (header counts, chunk sequence, class ids and names, object     *)
(* formats, referent arrays, property names and wire types, parent links,  *)
(* shared-string lengths, metadata) must be the structure BinaryWire.tla,  *)
(* the transcription of docs/binary.md, decodes from the same bytes.       *)
(* Beyond the listed properties (./check extras).                          *)
(***************************************************************************)
EXTENDS BinaryFormat

\* JSON numbers are Ints; referents may be negative
ViewIssues(F, V) ==
    IF V.outcome # "ok" THEN {<<0, "", "decoder-" \o V.outcome>>}
    ELSE
    (IF V.num_types # U32LE(F.header, 17) THEN {<<0, "header", "num_types">>} ELSE {})
    \cup (IF V.num_instances # U32LE(F.header, 21) THEN {<<0, "header", "num_instances">>} ELSE {})
    \cup (IF Len(V.chunks) # Len(F.chunks) THEN {<<0, "", "chunk-count">>}
          ELSE UNION {
             LET c == F.chunks[i]  v == V.chunks[i]  d == c.payload IN
             CASE c.name = "INST" ->
                    LET I == DecodeInst(d) IN
                    IF v.k = "INST" /\ v.id = I.id /\ v.class = I.class /\ v.format = I.format /\ v.refs = I.refs
                    THEN {} ELSE {<<i, "INST", "differs">>}
               [] c.name = "PROP" ->
                    LET nl == U32LE(d, 5)  q == 9 + nl IN
                    IF v.k = "PROP" /\ v.id = U32LE(d, 1) /\ v.name = Slice(d, 9, nl)
                       /\ (Len(d) >= q => v.type = TypeName(d[q]))
                    THEN {} ELSE {<<i, "PROP", "differs">>}
               [] c.name = "PRNT" ->
                    LET P == DecodePrnt(d) IN
                    IF v.k = "PRNT" /\ v.version = P.version /\ v.child = P.child /\ v.parent = P.parent
                    THEN {} ELSE {<<i, "PRNT", "differs">>}
               [] c.name = "SSTR" ->
                    LET S == DecodeSstr(d) IN
                    IF v.k = "SSTR" /\ v.version = S.version /\ v.lens = [j \in 1..Len(S.strings) |-> Len(S.strings[j])]
                    THEN {} ELSE {<<i, "SSTR", "differs">>}
               [] c.name = "META" -> IF v.k = "META" THEN {} ELSE {<<i, "META", "differs">>}
               [] c.name = "END"  -> IF v.k = "END" THEN {} ELSE {<<i, "END", "differs">>}
               [] OTHER -> IF v.k = "UNKNOWN" THEN {} ELSE {<<i, c.name, "differs">>}
             : i \in 1..Len(F.chunks) })
=============================================================================

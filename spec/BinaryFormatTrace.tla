-------------------------- MODULE BinaryFormatTrace --------------------------
(***************************************************************************)
(* Trace validation for the binary codec: every logged case (a forest, the *)
(* bytes rbx_binary wrote for it under each compression mode, the forest   *)
(* rbx_binary read back) is judged by BinaryFormat.  Cases are independent,*)
(* so each line is one evaluation; a failed clause prints CASEFAIL with    *)
(* the name of the clause.                                                 *)
(***************************************************************************)
EXTENDS TextView

Rec == ndJsonDeserialize(IOEnv.TRACE)
Dialect == IOEnv.DIALECT
\* which clauses to evaluate: "all", or "roundtrip" (skip the byte-level decoding of the files)
Want == IF "CLAUSES" \in DOMAIN IOEnv THEN IOEnv.CLAUSES ELSE "all"

VARIABLE l
Ev == Rec[l]

Modes == <<"none", "lz4", "zstd">>
M(m) == Ev.modes[m]
HasFile(m) == Want = "all" /\ "file" \in DOMAIN M(m) /\ "chunks" \in DOMAIN M(m).file
ModeSet == {k \in 1..3 : Modes[k] \in DOMAIN Ev.modes}

Report(name, issues) == PrintT(<<"CASEFAIL", ToJson([line |-> l, ep |-> Ev.ep, clause |-> name, issues |-> issues])>>)
Clause(name, holds) == IF holds THEN TRUE ELSE Report(name, {})

\* forests far too large to be taken apart here hold only values both formats return exactly as written, so "the
\* same forest came back" is equality of the two projections; the harness logs their fingerprints
FpCase ==
    \A k \in ModeSet :
       /\ Clause("write-" \o Modes[k], M(Modes[k]).write = "ok")
       /\ M(Modes[k]).write = "ok" =>
             /\ Clause("read-" \o Modes[k], M(Modes[k]).read = "ok")
             /\ M(Modes[k]).read = "ok" => Clause("roundtrip-" \o Modes[k], M(Modes[k]).fp_after = Ev.fp_before)

CheckCase ==
    IF "fp_before" \in DOMAIN Ev THEN FpCase ELSE
    \* C08: a population serializes whenever each of its instances serializes on its own
    /\ \A k \in ModeSet : Clause("write-" \o Modes[k],
                               IF "singles" \in DOMAIN Ev
                               THEN (\A i \in 1..Len(Ev.singles) : Ev.singles[i] = "ok") => M(Modes[k]).write = "ok"
                               ELSE M(Modes[k]).write = "ok")
    \* binding B: the population was enumerated by TLC on MCBinaryColumns, whose invariant AlwaysSucceeds says what
    \* the writer's outcome is; the real writer must agree (a change that makes a single instance fail as well
    \* satisfies the conditional clause above vacuously)
    /\ "model_out" \in DOMAIN Ev => \A k \in ModeSet : Clause("write-" \o Modes[k], M(Modes[k]).write = Ev.model_out)
    \* C08: success does not depend on the order of siblings (nor on the process): the harness driver tells
    \* every population the outcome of the first one logged with the same multiset of instances
    /\ "peer_write" \in DOMAIN Ev => Clause("orderfree", \A k \in ModeSet : M(Modes[k]).write = Ev.peer_write)
    /\ \A k \in ModeSet : M(Modes[k]).write = "ok" =>
          /\ Clause("read-" \o Modes[k], M(Modes[k]).read = "ok")
          /\ M(Modes[k]).read = "ok" =>
                /\ Clause("rootclass-" \o Modes[k], M(Modes[k]).root_class = "DataModel")
                /\ LET iss == RoundTripIssues(M(Modes[k]).after, Ev.before) IN
                   IF iss = {} THEN TRUE ELSE Report("roundtrip-" \o Modes[k], iss)
          /\ HasFile(Modes[k]) =>
                /\ IF WriterInvariants(M(Modes[k]).file, Dialect) THEN TRUE
                   ELSE Report("structure-" \o Modes[k], BadPropChunks(M(Modes[k]).file, Dialect))
                /\ WriterInvariants(M(Modes[k]).file, Dialect) =>
                      LET iss == FileIssues(M(Modes[k]).file, Ev.before, Dialect) IN
                      IF iss = {} THEN TRUE ELSE Report("meaning-" \o Modes[k], iss)
                /\ Clause("method-" \o Modes[k],
                          \A i \in 1..(Len(M(Modes[k]).file.chunks) - 1) :
                              M(Modes[k]).file.chunks[i].method = Modes[k])
    \* the repository's debugging decoder reports the structure BinaryWire decodes (TextView.tla; only when logged)
    /\ \A k \in ModeSet : ("view" \in DOMAIN M(Modes[k]) /\ "file" \in DOMAIN M(Modes[k]) /\ "chunks" \in DOMAIN M(Modes[k]).file) =>
          LET iss == ViewIssues(M(Modes[k]).file, M(Modes[k]).view) IN
          IF iss = {} THEN TRUE ELSE Report("textview-" \o Modes[k], iss)
    \* the three compression modes carry byte-identical chunk data
    /\ (ModeSet = 1..3 /\ \A k \in 1..3 : M(Modes[k]).write = "ok" /\ HasFile(Modes[k])) =>
          Clause("same-payload",
                 \A k \in 2..3 :
                    /\ Len(M(Modes[k]).file.chunks) = Len(M("none").file.chunks)
                    /\ \A i \in 1..Len(M("none").file.chunks) :
                          /\ M(Modes[k]).file.chunks[i].name = M("none").file.chunks[i].name
                          /\ M(Modes[k]).file.chunks[i].payload = M("none").file.chunks[i].payload)

Step == /\ l <= Len(Rec)
        /\ CheckCase \in BOOLEAN          \* evaluated as one expression (it only prints)
        /\ l' = l + 1
Finish == l = Len(Rec) + 1 /\ PrintT(<<"TRACE_DONE", Len(Rec)>>) /\ l' = l + 1
TraceSpec == l = 1 /\ [][Step \/ Finish]_l
=============================================================================

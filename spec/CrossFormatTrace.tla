-------------------------- MODULE CrossFormatTrace --------------------------
(***************************************************************************)
(* C06: the binary and the XML encoding of one DOM decode to equivalent    *)
(* DOMs, and converting a file from one format to the other loses nothing  *)
(* the first read produced.                                                *)
(* C15: a legacy property ends up as the same new property with the same   *)
(* value on all four paths (write/read x binary/XML), the legacy name      *)
(* never appears in a decoded DOM, and an explicit new value wins.         *)
(***************************************************************************)
EXTENDS XmlFormat

Rec == ndJsonDeserialize(IOEnv.TRACE)
VARIABLE l
Ev == Rec[l]

Report(name, issues) == PrintT(<<"CASEFAIL", ToJson([line |-> l, ep |-> Ev.ep, clause |-> name, issues |-> issues])>>)
Clause(name, holds) == IF holds THEN TRUE ELSE Report(name, {})

TripOK(t) == ("write" \in DOMAIN t => t.write = "ok") /\ t.read = "ok"

\* equality of two decoded values of one property, one from each format: NaN as a class; the binary
\* format's documented normalisations (rotation snapping, also inside attribute blobs, which both
\* formats store identically) are applied to the XML side before comparing
CrossEq(ab, ax) ==
    /\ ab.t = ax.t
    /\ CASE ab.t \in {"CFrame", "OptionalCFrame"} -> ValEq(ab.t, ab.v, SnapCFrame(ax.v))
         [] ab.t = "Attributes" -> AttrsEq(ab.v, ax.v)
         [] ab.t = "Font" -> ab.v[1] = ax.v[1] /\ ab.v[2] = ax.v[2] /\ ab.v[3] = ax.v[3] /\ ab.v[5] = ax.v[5]
         [] OTHER -> ValEq(ab.t, ab.v, ax.v)

CrossIssues(Ab, Ax, B) ==
    LET N == Len(B.inst) IN
    IF Len(Ab.inst) # N \/ Len(Ax.inst) # N THEN {<<0, "", "", "instance-count">>}
    ELSE
    (IF Ab.roots # Ax.roots THEN {<<0, "", "", "root-order">>} ELSE {})
    \cup UNION {
       LET ib == Ab.inst[k]  ix == Ax.inst[k]  bi == B.inst[k]
           eff == EffectiveProps(bi.class, bi.props)
           \* explicitly set, serializing properties, by canonical name
           setNames == {ShownName(bi.class, eff[x]) : x \in {x \in 1..Len(eff) : IsStored(bi.class, eff[x]) /\ IsKnown(bi.class, eff[x][1])}}
           valOf(inst, nm) == inst.props[CHOOSE y \in 1..Len(inst.props) : inst.props[y][1] = nm][2]
           has(inst, nm) == \E y \in 1..Len(inst.props) : inst.props[y][1] = nm
       IN
       (IF ib.class # ix.class \/ ib.name # ix.name \/ ib.parent # ix.parent \/ ib.kids # ix.kids
        THEN {<<k, bi.class, "", "shape">>} ELSE {})
       \cup { <<k, bi.class, nm, "missing-in-one-format">> : nm \in {nm \in setNames : ~(has(ib, nm) /\ has(ix, nm))} }
       \cup { <<k, bi.class, nm, "values-differ">> :
                nm \in {nm \in setNames : has(ib, nm) /\ has(ix, nm) /\ ~CrossEq(valOf(ib, nm), valOf(ix, nm))} }
       : k \in 1..N }

\* beyond C06: inputs whose type is not the declared one but which both writers convert (rbx_xml's
\* conversion table, the alternatives rbx_binary's column writers accept)
ConvOK(av, pv, T) ==
    CASE pv.t = "Int32" /\ T = "Int64"      -> av.t = "Int64" /\ av.v = SignExtend(pv.v)
      [] pv.t = "Float32" /\ T = "Float64"  -> av.t = "Float64" /\ FEq(av.v, WidenF32(pv.v))
      [] pv.t = "EnumItem" /\ T = "Enum"    -> av.t = "Enum" /\ av.v = pv.v[2]
      [] pv.t = "Int32" /\ T = "BrickColor" -> av.t = "BrickColor" /\ av.v = pv.v[3] * 256 + pv.v[4]
      [] pv.t = "Content" /\ T = "ContentId" -> av.t = "ContentId" /\ av.v = (IF pv.v[1] = 0 THEN <<>> ELSE pv.v[2])
      [] pv.t = "BinaryString" /\ T = "Tags" -> av.t = "Tags" /\ JoinNul(av.v) = pv.v
      [] OTHER -> TRUE
ConvIssues(A, B) ==
    UNION { { <<k, B.inst[k].class, B.inst[k].props[x][1], "not-converted">> :
                x \in { x \in 1..Len(B.inst[k].props) :
                          LET c  == B.inst[k].class
                              nm == CanonicalName(c, B.inst[k].props[x][1])
                              ys == {y \in 1..Len(A.inst[k].props) : A.inst[k].props[y][1] = nm}
                          IN ys = {} \/ \E y \in ys : ~ConvOK(A.inst[k].props[y][2], B.inst[k].props[x][2], CanonicalType(c, nm)) } }
            : k \in 1..Len(B.inst) }

\* a conversion only rbx_xml performs (Content given for a ContentId property): rbx_binary refuses the forest with a
\* type mismatch, rbx_xml stores the converted value
CheckXmlOnly ==
    /\ Clause("bin-refuses", Ev.bin.write = "err")
    /\ Clause("xml-trip", TripOK(Ev.xml))
    /\ (TripOK(Ev.xml) /\ Len(Ev.xml.after.inst) = Len(Ev.before.inst)) =>
          LET iss == ConvIssues(Ev.xml.after, Ev.before) IN
          IF iss = {} THEN TRUE ELSE Report("converted", iss)

CheckCross ==
    IF "xml_only" \in DOMAIN Ev THEN CheckXmlOnly ELSE
    /\ ("convertible" \in DOMAIN Ev /\ TripOK(Ev.bin) /\ Len(Ev.bin.after.inst) = Len(Ev.before.inst)) =>
          LET iss == ConvIssues(Ev.bin.after, Ev.before) IN
          IF iss = {} THEN TRUE ELSE Report("converted", iss)
    /\ Clause("bin-trip", TripOK(Ev.bin))
    /\ Clause("xml-trip", TripOK(Ev.xml))
    /\ (TripOK(Ev.bin) /\ TripOK(Ev.xml)) =>
          LET iss == CrossIssues(Ev.bin.after, Ev.xml.after, Ev.before) IN
          IF iss = {} THEN TRUE ELSE Report("cross", iss)
    /\ ("bin_then_xml" \in DOMAIN Ev) =>
          /\ Clause("convert-bin-xml-trip", TripOK(Ev.bin_then_xml))
          /\ TripOK(Ev.bin_then_xml) =>
                LET iss == XmlRoundTripIssues(Ev.bin_then_xml.after, Ev.bin_first, "IgnoreUnknown", "IgnoreUnknown") IN
                IF iss = {} THEN TRUE ELSE Report("convert-bin-xml", iss)
    /\ ("xml_then_bin" \in DOMAIN Ev) =>
          /\ Clause("convert-xml-bin-trip", TripOK(Ev.xml_then_bin))
          /\ TripOK(Ev.xml_then_bin) =>
                LET iss == RoundTripIssues(Ev.xml_then_bin.after, Ev.xml_first) IN
                IF iss = {} THEN TRUE ELSE Report("convert-xml-bin", iss)

-----------------------------------------------------------------------------
PathNames == {"wbin", "wxml", "rbin", "rbin_rev", "rxml", "rxml_rev"}
Paths == PathNames \cap DOMAIN Ev.paths

MigIssues ==
    LET cls == Ev.class
        F   == IF "focus" \in DOMAIN Ev THEN Ev.focus ELSE 1      \* the instance this event is about
        bi  == Ev.before.inst[F]
        legacyProp == bi.props[CHOOSE x \in 1..Len(bi.props) : bi.props[x][1] = Ev.legacy]
        tn  == CanonicalName(cls, Ev.target)
        expected == IF Ev.explicit = 1
                    THEN bi.props[CHOOSE x \in 1..Len(bi.props) :
                                    bi.props[x][1] = (IF "explicit_name" \in DOMAIN Ev THEN Ev.explicit_name ELSE Ev.target)][2]
                    ELSE MigValue(Ev.migop, legacyProp[2])
        okPaths == {p \in Paths : TripOK(Ev.paths[p])}
        inst(p) == Ev.paths[p].after.inst[F]
        has(p, nm) == \E y \in 1..Len(inst(p).props) : inst(p).props[y][1] = nm
        valOf(p, nm) == inst(p).props[CHOOSE y \in 1..Len(inst(p).props) : inst(p).props[y][1] = nm][2]
        legacyNames == {nm \in PropNames(IF cls \in Classes THEN Canonical(cls, Ev.legacy).class ELSE cls) :
                           IsOk(Canonical(cls, nm)) /\ Migrates(cls, nm) /\ MigrationTarget(cls, nm) = Ev.target}
    IN
    { <<0, cls, Ev.legacy, p \o ":failed">> : p \in Paths \ okPaths }
    \cup { <<0, cls, Ev.legacy, p \o ":legacy-name-in-dom">> : p \in {p \in okPaths : \E nm \in legacyNames : has(p, nm)} }
    \cup { <<0, cls, Ev.legacy, p \o ":new-property-missing">> : p \in {p \in okPaths : ~has(p, tn)} }
    \cup { <<0, cls, Ev.legacy, p \o ":wrong-value">> :
             p \in {p \in okPaths : has(p, tn) /\ ~(\/ ReadOK(valOf(p, tn), expected, TRUE, SerializedType(cls, Ev.target))
                                                    \/ XmlReadOK(valOf(p, tn), expected, SerializedType(cls, Ev.target), CanonicalType(cls, Ev.target)))} }
    \cup { <<0, cls, Ev.legacy, p \o "/" \o q \o ":paths-disagree">> :
             <<p, q>> \in {pq \in okPaths \X okPaths : pq[1] = "wbin" /\ pq[2] # "wbin" /\ has(pq[1], tn) /\ has(pq[2], tn)
                                                      /\ ~CrossEq(valOf(pq[1], tn), valOf(pq[2], tn))} }

CheckMig == LET iss == MigIssues IN IF iss = {} THEN TRUE ELSE Report("migration", iss)

\* huge exact-identity forests, logged by fingerprint: both read-backs are the forest that was written
CheckFp ==
    /\ Clause("bin-trip", Ev.bin.read = "ok")
    /\ Clause("xml-trip", Ev.xml.read = "ok")
    /\ (Ev.bin.read = "ok" /\ Ev.xml.read = "ok") =>
          Clause("cross", Ev.bin.fp_after = Ev.xml.fp_after /\ Ev.bin.fp_after = Ev.fp_before)

Step == /\ l <= Len(Rec)
        /\ (IF Ev.op = "mig_case" THEN CheckMig ELSE IF Ev.op = "cross_fp" THEN CheckFp ELSE CheckCross) \in BOOLEAN
        /\ l' = l + 1
Finish == l = Len(Rec) + 1 /\ PrintT(<<"TRACE_DONE", Len(Rec)>>) /\ l' = l + 1
TraceSpec == l = 1 /\ [][Step \/ Finish]_l
=============================================================================

-------------------------- MODULE UniqueIdGenProof --------------------------
(***************************************************************************)
(* Unbounded companion of UniqueIdGen.tla, machine-checked with TLAPS:     *)
(* for ANY number of threads and calls, as long as the counter has not     *)
(* wrapped, an index handed out by the atomic fetch_add was never handed   *)
(* out before.  (TLC checks the bounded model, including the wrap-around   *)
(* bound and the non-atomic variant; this proof removes the bounds for the *)
(* atomic variant.)  The per-thread sequences of UniqueIdGen.tla are       *)
(* abstracted to the set of indices issued so far.                         *)
(***************************************************************************)
EXTENDS Naturals, TLAPS

VARIABLES counter,   \* INDEX
          issued     \* indices returned so far, by any thread

vars == <<counter, issued>>

Init == counter = 0 /\ issued = {}

\* one UniqueId::now() by any thread: a single atomic read-modify-write
FetchAdd == /\ issued' = issued \cup {counter}
            /\ counter' = counter + 1

Next == FetchAdd
Spec == Init /\ [][Next]_vars

\* everything issued is below the counter
IndInv == /\ counter \in Nat
          /\ issued \subseteq Nat
          /\ \A x \in issued : x < counter

\* the index about to be handed out is fresh
Fresh == counter \notin issued

THEOREM InitInv == Init => IndInv
  BY DEF Init, IndInv

THEOREM StepInv == IndInv /\ [Next]_vars => IndInv'
  <1> SUFFICES ASSUME IndInv, [Next]_vars PROVE IndInv'
    OBVIOUS
  <1>1. CASE FetchAdd
    BY <1>1 DEF IndInv, FetchAdd
  <1>2. CASE UNCHANGED vars
    BY <1>2 DEF IndInv, vars
  <1> QED
    BY <1>1, <1>2 DEF Next

THEOREM InvFresh == IndInv => Fresh
  BY DEF IndInv, Fresh

THEOREM Safety == Spec => [](IndInv /\ Fresh)
  <1>1. Spec => []IndInv
    BY InitInv, StepInv, PTL DEF Spec
  <1> QED
    BY <1>1, InvFresh, PTL
=============================================================================

------------------------- MODULE BinaryWireExamples -------------------------
(***************************************************************************)
(* The worked examples printed in docs/binary.md, as ASSUMEs: the          *)
(* transcription in BinaryWire is checked against the document's own bytes *)
(* on every run.  Also: the bit-level operators agree with the arithmetic  *)
(* definitions of the document, exhaustively at width 8 and on samples at  *)
(* width 32.                                                               *)
(***************************************************************************)
EXTENDS BinaryWire

F(a, b, c, d) == <<a, b, c, d>>
\* IEEE bit patterns used by the examples
f0 == F(0, 0, 0, 0)        f1 == F(63, 128, 0, 0)     f2 == F(64, 0, 0, 0)     f3 == F(64, 64, 0, 0)
fm1 == F(191, 128, 0, 0)   fm2 == F(192, 0, 0, 0)     fm3 == F(192, 64, 0, 0)  f05 == F(63, 0, 0, 0)
\* two's complement of a small integer (|n| < 2^23)
i(n) == LET m == IF n >= 0 THEN n ELSE 16777216 + n
        IN F(IF n >= 0 THEN 0 ELSE 255, (m \div 65536) % 256, (m \div 256) % 256, m % 256)

\* Roblox Float Format: -0.15625 is be 20 00 00 standard, 7c 40 00 01 in the file
ASSUME UnRot(F(124, 64, 0, 1)) = F(190, 32, 0, 0)
ASSUME Rot(F(190, 32, 0, 0)) = F(124, 64, 0, 1)

\* UDim {1, 2} and {3, 4}:  7f 80 00 80 00 00 00 00 | 00 00 00 00 00 00 04 08
ASSUME Values("doc", 6, <<127, 128, 0, 128, 0, 0, 0, 0, 0, 0, 0, 0, 0, 0, 4, 8>>, 1, 2).v
          = << <<f1, i(2)>>, <<F(64, 64, 0, 0), i(4)>> >>

\* UDim2 {0.75, -30, -1.5, 60}: 7e 80 00 00 7f 80 00 01 00 00 00 3b 00 00 00 78
ASSUME Values("doc", 7, <<126, 128, 0, 0, 127, 128, 0, 1, 0, 0, 0, 59, 0, 0, 0, 120>>, 1, 1).v
          = << <<F(63, 64, 0, 0), i(-30), F(191, 192, 0, 0), i(60)>> >>

\* Faces / Axes are plain bytes
ASSUME Values("doc", 9, <<1, 24, 38>>, 1, 3).v = <<1, 24, 38>>
ASSUME Values("doc", 10, <<1, 3, 5>>, 1, 3).v = <<1, 3, 5>>

\* BrickColor 1004, 37, 1010: 00 00 00 00 00 00 03 00 03 EC 25 F2
ASSUME Values("doc", 11, <<0, 0, 0, 0, 0, 0, 3, 0, 3, 236, 37, 242>>, 1, 3).v = <<1004, 37, 1010>>

\* Color3 255,180,20: 7f 00 00 00 7e 69 69 6a 7b 41 41 42
ASSUME Values("doc", 12, <<127, 0, 0, 0, 126, 105, 105, 106, 123, 65, 65, 66>>, 1, 1).v
          = << <<f1, F(63, 52, 180, 181), F(61, 160, 160, 161)>> >>

\* Vector3 (1,2,3), (-1,-2,-3)
ASSUME Values("doc", 14, <<127, 127, 0, 0, 0, 0, 0, 1, 128, 128, 0, 0, 0, 0, 0, 1, 128, 128, 128, 128, 0, 0, 0, 1>>, 1, 2).v
          = << <<f1, f2, f3>>, <<fm1, fm2, fm3>> >>

\* Vector2 (-100.80, 200.55), (200.55, -100.80)
ASSUME Values("doc", 13, <<133, 134, 147, 145, 51, 25, 53, 154, 134, 133, 145, 147, 25, 51, 154, 53>>, 1, 2).v
          = << <<F(194, 201, 153, 154), F(67, 72, 140, 205)>>, <<F(67, 72, 140, 205), F(194, 201, 153, 154)>> >>

\* Referent accumulation: 1619, 1, 4, 2, 3, 5  ->  1619 1620 1624 1626 1629 1634
RefBytes(vals) == LET n == Len(vals)  w == [k \in 1..n |-> Zig(i(vals[k]))]
                  IN [k \in 1..(4 * n) |-> w[((k - 1) % n) + 1][((k - 1) \div n) + 1]]
ASSUME RefArray(RefBytes(<<1619, 1, 4, 2, 3, 5>>), 1, 6).v = <<1619, 1620, 1624, 1626, 1629, 1634>>

\* Vector3int16 (-1, -2, -3): FF FF FE FF FD FF   (second half of the printed example)
ASSUME Values("doc", 20, <<255, 255, 254, 255, 253, 255>>, 1, 1).v = << <<-1, -2, -3>> >>

\* NumberRange (0, 0.5), (0.5, 1)
ASSUME Values("doc", 23, <<0, 0, 0, 0, 0, 0, 0, 63, 0, 0, 0, 63, 0, 0, 128, 63>>, 1, 2).v = << <<f0, f05>>, <<f05, f1>> >>

\* Rect (-1,-10,8,9), (0,1,5,6)
ASSUME Values("doc", 24, <<127, 0, 0, 0, 0, 0, 1, 0, 130, 127, 64, 0, 0, 0, 1, 0, 130, 129, 0, 64, 0, 0, 0, 0, 130, 129, 32, 128, 0, 0, 0, 0>>, 1, 2).v
          = << <<fm1, F(193, 32, 0, 0), F(65, 0, 0, 0), F(65, 16, 0, 0)>>, <<f0, f1, F(64, 160, 0, 0), F(64, 192, 0, 0)>> >>

\* PhysicalProperties default, then (0.7, 0.3, 0.5, 1, 1)
ASSUME Values("doc", 25, <<0, 1, 51, 51, 51, 63, 154, 153, 153, 62, 0, 0, 0, 63, 0, 0, 128, 63, 0, 0, 128, 63>>, 1, 2).v
          = << <<>>, <<F(63, 51, 51, 51), F(62, 153, 153, 154), f05, f1, f1>> >>

\* Color3uint8 (0,255,255), (63,0,127): 00 3f ff 00 ff 7f
ASSUME Values("doc", 26, <<0, 63, 255, 0, 255, 127>>, 1, 2).v = << <<0, 255, 255>>, <<63, 0, 127>> >>

\* NumberSequence (first of the two printed sequences)
ASSUME Values("doc", 21, <<3, 0, 0, 0, 0, 0, 0, 0, 0, 0, 0, 0, 0, 0, 0, 0, 0, 0, 0, 63, 0, 0, 128, 63, 0, 0, 0, 0,
                            0, 0, 128, 63, 0, 0, 128, 63, 0, 0, 0, 63>>, 1, 1).v
          = << << <<f0, f0, f0>>, <<f05, f1, f0>>, <<f1, f1, f05>> >> >>

\* OptionalCoordinateFrame: 10 0a 02 ... 02 01 00
ASSUME LET r == Values("doc", 30, <<16, 10, 2, 0, 0, 0, 0, 0, 0, 0, 0, 0, 0, 0, 0, 0, 0, 0, 0, 127, 0, 0, 0, 0, 0, 0, 0, 2, 1, 0>>, 1, 2)
       IN r.ok /\ r.v[2] = <<>> /\ r.v[1] = <<f0, f0, f1>> \o BasicRotation(10)

\* CFrame.new(1,2,3) and CFrame.new(4,5,6)*Angles(7,8,9): positions and the id of the first value
CFrameExample == <<2, 0, 75, 192, 7, 62, 8, 156, 117, 61, 149, 70, 125, 63, 29, 37, 144, 190, 88, 108, 116, 191, 132, 197,
                   195, 61, 30, 74, 115, 63, 111, 25, 149, 190, 159, 166, 224, 189,
                   127, 129, 0, 0, 0, 0, 0, 0, 128, 127, 0, 34, 0, 212, 0, 178, 128, 129, 128, 128, 0, 0, 0, 0>>
ASSUME LET r == Values("doc", 16, CFrameExample, 1, 2)
       IN /\ r.ok /\ r.p = Len(CFrameExample) + 1
          /\ SubSeq(r.v[1], 1, 3) = <<f1, f2, f3>> /\ SubSeq(r.v[1], 4, 12) = BasicRotation(2)
          /\ r.v[2][1] = F(64, 128, 0, 0)          \* x = 4 (the printed y/z bytes of the second value are not 5 and 6)
          /\ r.v[2][4] = F(62, 7, 192, 75)          \* R00 = 4B C0 07 3E little-endian

\* Integer Transformations: bit-level operators agree with the arithmetic definition of the
\* document, exhaustively at width 8 ...
Val8(w) == IF w[1] < 128 THEN w[1] ELSE w[1] - 256
ASSUME \A x \in -128..127 :
          LET w == <<IF x >= 0 THEN x ELSE x + 256>>
              t == IF x >= 0 THEN 2 * x ELSE 2 * (-x) - 1
          IN Zig(w) = <<t>> /\ UnZig(<<t>>) = w
\* ... and on boundary samples at width 32
ASSUME UnZig(F(0, 0, 0, 1)) = F(255, 255, 255, 255)        \* 1 -> -1
ASSUME UnZig(F(255, 255, 255, 255)) = F(128, 0, 0, 0)      \* 2^32-1 -> i32::MIN
ASSUME UnZig(F(255, 255, 255, 254)) = F(127, 255, 255, 255)
ASSUME \A k \in {0, 1, 2, 255, 256, 65535, 8388607} : UnZig(Zig(i(k))) = i(k) /\ UnZig(Zig(i(-k))) = i(-k)
\* float rotation is a bijection at width 8, inverse of each other
ASSUME \A x \in 0..255 : UnRot(Rot(<<x>>)) = <<x>> /\ Rot(UnRot(<<x>>)) = <<x>>

VARIABLE dummy
Spec == dummy = 0 /\ [][UNCHANGED dummy]_dummy
=============================================================================

------------------------------ MODULE TextTrace ------------------------------
(***************************************************************************)
(* C17 on recorded executions: every value through every serde entry point *)
(* comes back identical (byte vectors: bit-identical); UniqueId / Ref text  *)
(* forms round-trip; BrickColor numbers and names, Faces / Axes bit sets,  *)
(* Tags and MaterialColors blobs convert back and forth without loss; each *)
(* sample of rbx_dom_lua's allValues.json decodes to its stated type and   *)
(* re-encodes to the same JSON tree.                                       *)
(***************************************************************************)
EXTENDS Integers, Sequences, FiniteSets, TLC, Json, IOUtils

Rec == ndJsonDeserialize(IOEnv.TRACE)
VARIABLE l
Ev == Rec[l]

Report(name) == PrintT(<<"CASEFAIL", ToJson([line |-> l, ep |-> Ev.ep, clause |-> name, issues |-> {}])>>)

FaceNames == <<"Right", "Top", "Back", "Left", "Bottom", "Front">>
AxisNames == <<"X", "Y", "Z">>
Bit(n, i) == (n \div (2 ^ i)) % 2
B(s) == s
\* names as UTF-8 byte strings (the JSON tree carries strings as bytes)
NameBytes(nm) ==
    CASE nm = "Right" -> <<82, 105, 103, 104, 116>>   [] nm = "Top" -> <<84, 111, 112>>
      [] nm = "Back" -> <<66, 97, 99, 107>>            [] nm = "Left" -> <<76, 101, 102, 116>>
      [] nm = "Bottom" -> <<66, 111, 116, 116, 111, 109>> [] nm = "Front" -> <<70, 114, 111, 110, 116>>
      [] nm = "X" -> <<88>> [] nm = "Y" -> <<89>> [] nm = "Z" -> <<90>>
ExpectedNames(names, bits) ==
    LET idx == {i \in 1..Len(names) : Bit(bits, i - 1) = 1}
        RECURSIVE Go(_)
        Go(S) == IF S = {} THEN <<>>
                 ELSE LET m == CHOOSE x \in S : \A y \in S : x <= y IN <<[k |-> "str", v |-> NameBytes(names[m])]>> \o Go(S \ {m})
    IN [k |-> "arr", v |-> Go(idx)]

Holds ==
    CASE Ev.op = "serde" -> Ev.outcome = "ok" /\ Ev.decoded = Ev.value
      [] Ev.op = "text"  -> Ev.outcome = "ok" /\ Ev.parsed = Ev.value
      \* number -> colour -> number is exact; name -> colour -> name is exact.  (Roblox's own table gives
      \* four pairs of colours one name - Lilac, Rust, Gold, Deep orange, as rbx_types documents - so
      \* number -> name -> number cannot be demanded for those.)
      [] Ev.op = "brick" -> Ev.as_number = Ev.number /\ Ev.name_back = Ev.name /\ Ev.from_name >= 0
      [] Ev.op = "bitset" ->
            IF Ev.back_str = -2 THEN FALSE                \* a legal bit pattern the type refuses
            ELSE /\ Ev.back_str = Ev.bits /\ Ev.back_value = Ev.bits
                 /\ Ev.names = ExpectedNames(IF Ev.kind = "Faces" THEN FaceNames ELSE AxisNames, Ev.bits)
      [] Ev.op = "blob"  -> Ev.decoded = Ev.value
      [] Ev.op = "lua"   -> Ev.outcome = "ok" /\ Ev.decoded_type = Ev.stated_type /\ Ev.json_out = Ev.json_in
      [] OTHER -> FALSE

Step == /\ l <= Len(Rec)
        /\ (IF Holds THEN TRUE ELSE Report(Ev.op)) \in BOOLEAN
        /\ l' = l + 1
Finish == l = Len(Rec) + 1 /\ PrintT(<<"TRACE_DONE", Len(Rec)>>) /\ l' = l + 1
TraceSpec == l = 1 /\ [][Step \/ Finish]_l
=============================================================================

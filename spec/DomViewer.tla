------------------------------ MODULE DomViewer ------------------------------
(***************************************************************************)
(* rbx_dom_weak::DomViewer (beyond the listed properties): the stateful    *)
(* redaction of referents used for snapshots.  A viewer numbers referents  *)
(* in the order it first meets them - depth first, parents before          *)
(* children, children in list order - and keeps the numbering for its      *)
(* whole life, across views and across DOMs.  A Ref property shows the     *)
(* number of its target if the VIEWER has met the target (in this view,    *)
(* including targets that come later in the walk, or in an earlier view of *)
(* any DOM), "null" for the null referent and "[unknown ID]" otherwise.    *)
(*                                                                         *)
(* A DOM is given as a sequence of nodes [ref, kids, refp, sslen]: its     *)
(* referent (a positive number), child list, Ref-property targets          *)
(* (0 = null) and the length of its SharedString property (-1 = none).     *)
(***************************************************************************)
EXTENDS Integers, Sequences, FiniteSets, TLC

VARIABLES ids,     \* function: referents met so far -> their number
          next     \* the number the next new referent gets
vars == <<ids, next>>

NullShown == -1
UnknownShown == -2

Node(dom, r) == CHOOSE i \in 1..Len(dom) : dom[i].ref = r
Kids(dom, r) == dom[Node(dom, r)].kids

RECURSIVE Pre(_, _), PreAll(_, _)
Pre(dom, r) == <<r>> \o PreAll(dom, Kids(dom, r))
PreAll(dom, rs) == IF rs = <<>> THEN <<>> ELSE Pre(dom, Head(rs)) \o PreAll(dom, Tail(rs))

\* numbering after meeting the referents of `order` one by one
RECURSIVE Meet(_, _, _)
Meet(f, n, order) ==
    IF order = <<>> THEN [ids |-> f, next |-> n]
    ELSE LET r == Head(order) IN
         IF r \in DOMAIN f THEN Meet(f, n, Tail(order))
         ELSE Meet([x \in DOMAIN f \cup {r} |-> IF x = r THEN n ELSE f[x]], n + 1, Tail(order))

Shown(f, t) == IF t = 0 THEN NullShown ELSE IF t \in DOMAIN f THEN f[t] ELSE UnknownShown

\* what the viewer returns for the walk `order` under numbering f, flattened in walk order
Output(dom, f, order) ==
    [i \in 1..Len(order) |->
        LET nd == dom[Node(dom, order[i])] IN
        [id |-> f[order[i]], nkids |-> Len(nd.kids),
         refp |-> [j \in 1..Len(nd.refp) |-> Shown(f, nd.refp[j])], sslen |-> nd.sslen]]

\* view(dom): the whole tree from the root; view_children(dom): the root's children, all of them
\* met before any is shown
Walk(dom, roots) == PreAll(dom, roots)
View(dom, roots) ==
    LET m == Meet(ids, next, Walk(dom, roots)) IN ids' = m.ids /\ next' = m.next
ViewResult(dom, roots) == Output(dom, ids', Walk(dom, roots))

Init == ids = [x \in {} |-> 0] /\ next = 0

\* ---- what users rely on ----
Range(f) == {f[x] : x \in DOMAIN f}
NumberingExact == /\ \A a, b \in DOMAIN ids : ids[a] = ids[b] => a = b
                  /\ Range(ids) = 0..(next - 1)
\* numbers are never re-assigned
Stable == [][\A r \in DOMAIN ids : r \in DOMAIN ids' /\ ids'[r] = ids[r]]_vars
=============================================================================

--------------------------- MODULE MCForeignBinary ---------------------------
(***************************************************************************)
(* The most general producer docs/binary.md allows, for fixed logical      *)
(* forests: every combination of the degrees of freedom the document       *)
(* leaves open is one initial state, printed as an abstract file that the  *)
(* harness's foreign encoder concretises (C04, binding B).                 *)
(*   Group 1: class-id assignment, referent numbering, order of INST/PROP  *)
(*            chunks, order of the PRNT rows.                              *)
(*   Group 2: optional META / unknown chunks, object format of services,   *)
(*            narrower legacy numeric encodings, PROP chunks that end      *)
(*            after the name or carry an unknown type id, compression, a   *)
(*            declared class without instances (with / without PROP).     *)
(* Sibling order is part of the logical forest (it is the order of         *)
(* appearance in PRNT), so PRNT orders are those that keep siblings in     *)
(* order: parents-first, children-first, and by depth.                     *)
(***************************************************************************)
EXTENDS Integers, Sequences, FiniteSets, TLC, Json, SequencesExt

CONSTANTS Group    \* 1 or 2

B(s) == s   \* byte strings are written as tuples of numbers below

\* --- the logical forest (PForest shape; positions are pre-order) ---------------------------
I64(n) == IF n >= 0 THEN <<0, 0, 0, 0, 0, 0, 0, n>> ELSE <<255, 255, 255, 255, 255, 255, 255, 256 + n>>
Str(t, bytes) == [t |-> t, v |-> bytes]
Z4 == <<0, 0, 0, 0>>  P1 == <<63, 128, 0, 0>>  M1 == <<191, 128, 0, 0>>

Forest ==
  [roots |-> <<1, 7>>,
   inst |-> <<
     \* two properties the database does not know: the reader has to take their types from the wire type
     [class |-> "Folder", name |-> <<82, 111, 111, 116>>, parent |-> 0, kids |-> <<2, 3, 4, 5, 6>>,
        props |-> << <<"VerifForeignF32", [t |-> "Float32", v |-> <<63, 192, 0, 0>>]>>,
                     <<"VerifForeignI32", [t |-> "Int32", v |-> <<255, 255, 255, 249>>]>>,
                     \* three distinct shared strings in the file (SSTR indices 0, 1, 2 in first-use order)
                     <<"VerifForeignShared", [t |-> "SharedString", v |-> <<9>>]>> >>],
     [class |-> "IntValue", name |-> <<73>>, parent |-> 1, kids |-> <<>>,
        props |-> << <<"Value", [t |-> "Int64", v |-> <<0, 0, 0, 0, 119, 53, 148, 0>>]>> >>],           \* 2 000 000 000
     [class |-> "IntValue", name |-> <<74>>, parent |-> 1, kids |-> <<>>,
        props |-> << <<"Value", [t |-> "Int64", v |-> <<255, 255, 255, 255, 166, 151, 209, 0>>]>> >>],   \* -1 500 000 000
     [class |-> "NumberValue", name |-> <<78>>, parent |-> 1, kids |-> <<>>,
        \* 0.1f32 widened exactly (0.10000000149011612): exact in Float32, but not the shortest decimal of 0.1
        props |-> << <<"Value", [t |-> "Float64", v |-> <<63, 185, 153, 153, 160, 0, 0, 0>>]>> >>],
     [class |-> "ObjectValue", name |-> <<79>>, parent |-> 1, kids |-> <<>>,
        props |-> << <<"Value", [t |-> "Ref", v |-> 3]>>, <<"VerifForeignShared", [t |-> "SharedString", v |-> <<1, 2, 3>>]>> >>],
     [class |-> "ObjectValue", name |-> <<81>>, parent |-> 1, kids |-> <<>>,
        props |-> << <<"Value", [t |-> "Ref", v |-> 0]>>, <<"VerifForeignShared", [t |-> "SharedString", v |-> <<4, 5>>]>> >>],
     [class |-> "Workspace", name |-> <<87>>, parent |-> 0, kids |-> <<8>>,
        props |-> << <<"Gravity", [t |-> "Float32", v |-> <<67, 68, 51, 51>>]>> >>],
     [class |-> "Part", name |-> <<80>>, parent |-> 7, kids |-> <<>>,
        props |-> << <<"Anchored", [t |-> "Bool", v |-> 1]>>,
                     <<"CFrame", [t |-> "CFrame", v |-> <<P1, <<64, 0, 0, 0>>, <<192, 64, 0, 0>>,
                                                           Z4, Z4, P1, P1, Z4, Z4, Z4, P1, Z4>>]>>,
                     <<"Color3uint8", [t |-> "Color3uint8", v |-> <<10, 200, 30>>]>> >>]
   >>]

N == Len(Forest.inst)
ClassNames == <<"Folder", "IntValue", "NumberValue", "ObjectValue", "Workspace", "Part">>
NC == Len(ClassNames)
IsService(c) == c = "Workspace"
PropsOfClass(c) == LET k == CHOOSE k \in 1..N : Forest.inst[k].class = c
                   IN <<"Name">> \o [i \in 1..Len(Forest.inst[k].props) |-> Forest.inst[k].props[i][1]]

\* what the reader must produce: the same forest, canonical names, widened values unchanged
Expect == Forest

-----------------------------------------------------------------------------
Perms(S) == {f \in [1..Cardinality(S) -> S] : \A i, j \in 1..Cardinality(S) : i # j => f[i] # f[j]}

\* "Class ID: an arbitrarily-chosen ID": dense, scattered, and ids whose four little-endian bytes are the Zstandard
\* frame magic 28 b5 2f fd (4247762216, here as the two's-complement value) and its neighbours - every INST and PROP
\* chunk of that class then BEGINS with the magic, which means something only when the chunk is stored compressed
MagicIds == [i \in 1..NC |-> -47205080 - 7 * (i - 1)]
ClassIdOptions == { [i \in 1..NC |-> i - 1], [i \in 1..NC |-> 40 - 3 * i], MagicIds }
\* dense, reversed, scattered, and large sparse numbers (differences of a billion between neighbours)
ReferentOptions == { [k \in 1..N |-> k - 1], [k \in 1..N |-> N - k], [k \in 1..N |-> 7 * ((k * 5) % 11) + 100],
                     [k \in 1..N |-> IF k % 2 = 0 THEN 1000000000 + k ELSE 2000000000 + 3 * k] }

\* PRNT orders keeping siblings in order
RECURSIVE Pre(_), Post(_)
Pre(q)  == IF q = <<>> THEN <<>> ELSE <<Head(q)>> \o Pre(Forest.inst[Head(q)].kids \o Tail(q))
Post(q) == IF q = <<>> THEN <<>> ELSE Post(Forest.inst[Head(q)].kids) \o <<Head(q)>> \o Post(Tail(q))
RECURSIVE Bfs(_)
Bfs(q)  == IF q = <<>> THEN <<>> ELSE <<Head(q)>> \o Bfs(Tail(q) \o Forest.inst[Head(q)].kids)
PrntOptions == {Pre(Forest.roots), Post(Forest.roots), Bfs(Forest.roots)}

\* chunk orders: a class order and a layout ("grouped": INST* then PROP*; "percls": INST c, PROP c,* ...)
ClassOrders == IF Group = 1 THEN Perms(1..NC) ELSE {[i \in 1..NC |-> NC + 1 - i]}
\* docs/binary.md, "File Structure": the INST chunks precede the PROP chunks; within each group any
\* order is allowed (an earlier revision also interleaved them per class - that is not a freedom the
\* document grants, so it is not generated)
Layouts == {"grouped", "props-reversed", "props-rotated"}

InstChunk(ci) == [k |-> "INST", class |-> ci - 1]
PropChunks(ci, narrowI, narrowF) ==
    LET ps == PropsOfClass(ClassNames[ci]) IN
    [i \in 1..Len(ps) |->
        IF ps[i] = "Value" /\ ClassNames[ci] = "IntValue" /\ narrowI
        THEN [k |-> "PROP", class |-> ci - 1, prop |-> ps[i], as |-> "Int32"]
        ELSE IF ps[i] = "Value" /\ ClassNames[ci] = "NumberValue" /\ narrowF
        THEN [k |-> "PROP", class |-> ci - 1, prop |-> ps[i], as |-> "Float32"]
        ELSE [k |-> "PROP", class |-> ci - 1, prop |-> ps[i]]]

RECURSIVE Concat(_)
Concat(ss) == IF ss = <<>> THEN <<>> ELSE Head(ss) \o Concat(Tail(ss))

Body(co, layout, narrowI, narrowF) ==
    CASE layout = "grouped" ->
            [i \in 1..NC |-> InstChunk(co[i])] \o Concat([i \in 1..NC |-> PropChunks(co[i], narrowI, narrowF)])
      [] layout = "props-rotated" ->
            LET ps == Concat([i \in 1..NC |-> PropChunks(co[i], narrowI, narrowF)])
                h  == Len(ps) \div 2
            IN [i \in 1..NC |-> InstChunk(co[i])] \o SubSeq(ps, h + 1, Len(ps)) \o SubSeq(ps, 1, h)
      [] layout = "props-reversed" ->
            [i \in 1..NC |-> InstChunk(co[i])] \o Reverse(Concat([i \in 1..NC |-> PropChunks(co[i], narrowI, narrowF)]))

Extras == {"none", "trunc", "unk", "both"}
WithExtras(body, x) ==
    LET at == 4 IN
    IF x = "none" THEN body
    ELSE LET ins == IF x = "trunc" THEN <<[k |-> "PROPTRUNC", class |-> body[1].class]>>
                    ELSE IF x = "unk" THEN <<[k |-> "PROPUNK", class |-> body[1].class]>>
                    ELSE <<[k |-> "PROPTRUNC", class |-> body[1].class], [k |-> "PROPUNK", class |-> body[2].class]>>
         IN SubSeq(body, 1, NC) \o ins \o SubSeq(body, NC + 1, Len(body))   \* after the INST chunks of "grouped"

Optional == {"none", "meta", "xtra-first", "xtra-magic", "meta+xtra-mid"}
WithOptional(body, o) ==
    CASE o = "none" -> body
      [] o = "meta" -> <<[k |-> "META"]>> \o body
      [] o = "xtra-first" -> <<[k |-> "XTRA"]>> \o body
      [] o = "xtra-magic" -> <<[k |-> "XTRAMAGIC"]>> \o body     \* unknown chunk whose data begins 28 b5 2f fd
      [] o = "meta+xtra-mid" -> <<[k |-> "META"]>> \o SubSeq(body, 1, NC) \o <<[k |-> "XTRA"]>> \o SubSeq(body, NC + 1, Len(body))

MethodOptions == {<<"none">>, <<"lz4">>, <<"zstd">>, <<"lz4", "none", "zstd", "zstd", "lz4">>}

VARIABLE case
vars == <<case>>

\* a class the file declares but has no instance of (Instance Count 0), with or without a PROP chunk whose
\* value array is therefore empty; its INST chunk follows the last INST chunk, its PROP chunk ends the body
EmptyClass == {"none", "inst", "inst+prop"}
EmptyClassId == 77
WithEmptyClass(ch, e) ==
    IF e = "none" THEN ch
    ELSE LET p == CHOOSE j \in 1..Len(ch) : ch[j].k = "INST" /\ \A i \in (j + 1)..Len(ch) : ch[i].k # "INST"
         IN SubSeq(ch, 1, p) \o <<[k |-> "INST", class |-> NC]>> \o SubSeq(ch, p + 1, Len(ch))
            \o (IF e = "inst+prop" THEN <<[k |-> "PROP", class |-> NC, prop |-> "Name"]>> ELSE <<>>)

\* the shared-string table precedes the first INST chunk (docs/binary.md, file structure)
WithSstr(ch) ==
    LET p == CHOOSE j \in 1..Len(ch) : ch[j].k = "INST" /\ \A i \in 1..(j - 1) : ch[i].k # "INST"
    IN SubSeq(ch, 1, p - 1) \o <<[k |-> "SSTR"]>> \o SubSeq(ch, p, Len(ch))

Case(ids, refs, co, layout, prnt, narrowI, narrowF, extra, opt, service, methods, empty) ==
    [forest |-> Forest, expect |-> Expect,
     classes |-> [i \in 1..NC |-> [name |-> ClassNames[i], id |-> ids[i], service |-> (service /\ IsService(ClassNames[i]))]]
                 \o (IF empty = "none" THEN <<>> ELSE <<[name |-> "Decal", id |-> EmptyClassId, service |-> FALSE]>>),
     referents |-> refs,
     chunks |-> WithSstr(WithEmptyClass(WithOptional(WithExtras(Body(co, IF extra = "none" THEN layout ELSE "grouped", narrowI, narrowF), extra), opt), empty)),
     prnt |-> prnt,
     methods |-> methods]

Init ==
    IF Group = 1
    THEN \E ids \in ClassIdOptions, refs \in ReferentOptions, co \in ClassOrders, layout \in Layouts, prnt \in PrntOptions :
            case = Case(ids, refs, co, layout, prnt, FALSE, FALSE, "none", "none", TRUE, <<"none">>, "none")
    ELSE \E narrowI \in BOOLEAN, narrowF \in BOOLEAN, extra \in Extras, opt \in Optional, service \in BOOLEAN,
            methods \in MethodOptions, refs \in ReferentOptions, empty \in EmptyClass,
            ids \in {[i \in 1..NC |-> 40 - 3 * i], MagicIds} :
            case = Case(ids, refs, [i \in 1..NC |-> NC + 1 - i], "grouped",
                        Post(Forest.roots), narrowI, narrowF, extra, opt, service, methods, empty)

Next == UNCHANGED case
Spec == Init /\ [][Next]_vars

\* every abstract file names each class and each instance exactly once and keeps INST(c) before PROP(c, .)
WellFormedCase ==
    LET ch == case.chunks IN
    /\ \A i \in 1..NC : Cardinality({j \in 1..Len(ch) : ch[j].k = "INST" /\ ch[j].class = i - 1}) = 1
    /\ \A j \in 1..Len(ch) : ch[j].k \in {"PROP", "PROPTRUNC", "PROPUNK"} =>
          \E i \in 1..(j - 1) : ch[i].k = "INST" /\ ch[i].class = ch[j].class
    /\ \A i, j \in 1..Len(case.classes) : i # j => case.classes[i].id # case.classes[j].id
    /\ \A i, j \in 1..N : i # j => case.referents[i] # case.referents[j]
    /\ Len(case.prnt) = N /\ {case.prnt[i] : i \in 1..N} = 1..N

PrintCase == PrintT(<<"REPLAY", ToJson(case)>>)
=============================================================================

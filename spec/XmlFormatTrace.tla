---------------------------- MODULE XmlFormatTrace ----------------------------
(***************************************************************************)
(* Trace validation for the XML codec (C02, C05 writer direction): every   *)
(* logged case is a forest, the document rbx_xml wrote for it (as a token  *)
(* tree from an independent parser) and the forest rbx_xml read back.      *)
(***************************************************************************)
EXTENDS XmlFormat

Rec == ndJsonDeserialize(IOEnv.TRACE)
VARIABLE l
Ev == Rec[l]

Report(name, issues) == PrintT(<<"CASEFAIL", ToJson([line |-> l, ep |-> Ev.ep, clause |-> name, issues |-> issues])>>)
Clause(name, holds) == IF holds THEN TRUE ELSE Report(name, {})

\* which clauses to evaluate: "all", "doc" (C05: the document) or "roundtrip" (C02: the forest read back)
Want == IF "CLAUSES" \in DOMAIN IOEnv THEN IOEnv.CLAUSES ELSE "all"

\* huge exact-identity forests, logged by fingerprint (see BinaryFormatTrace)
FpCase ==
    /\ Clause("write", Ev.write = "ok")
    /\ Ev.write = "ok" =>
          /\ Clause("read", Ev.read = "ok")
          /\ Ev.read = "ok" => Clause("roundtrip", Ev.fp_after = Ev.fp_before)

CheckCase ==
    IF "fp_before" \in DOMAIN Ev THEN FpCase ELSE
    /\ Clause("write", Ev.write = WriteExpected(Ev.before, Ev.enc))
    /\ Ev.write = "ok" =>
          /\ Want \in {"all", "doc"} =>
                /\ Clause("wellformed", "wellformed" \in DOMAIN Ev /\ Ev.wellformed = 1)
                /\ ("wellformed" \in DOMAIN Ev /\ Ev.wellformed = 1) =>
                      /\ IF DocInvariants(Ev.doc) THEN TRUE ELSE Report("docinv", BadElements(Ev.doc))
                      /\ DocInvariants(Ev.doc) =>
                            LET iss == DocIssues(Ev.doc, Ev.before, Ev.enc) IN
                            IF iss = {} THEN TRUE ELSE Report("docmeans", iss)
          /\ Want \in {"all", "roundtrip"} =>
                /\ Clause("read", Ev.read = ReadExpected(Ev.before, Ev.enc, Ev.dec))
                /\ Ev.read = "ok" =>
                      /\ Clause("rootclass", Ev.root_class = "DataModel")
                      /\ LET iss == XmlRoundTripIssues(Ev.after, Ev.before, Ev.enc, Ev.dec) IN
                         IF iss = {} THEN TRUE ELSE Report("roundtrip", iss)

Step == l <= Len(Rec) /\ CheckCase \in BOOLEAN /\ l' = l + 1
Finish == l = Len(Rec) + 1 /\ PrintT(<<"TRACE_DONE", Len(Rec)>>) /\ l' = l + 1
TraceSpec == l = 1 /\ [][Step \/ Finish]_l
=============================================================================

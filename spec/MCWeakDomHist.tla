--------------------------- MODULE MCWeakDomHist ---------------------------
(***************************************************************************)
(* Binding B for WeakDom: TLC enumerates every history (operation          *)
(* sequence) of the specification up to length HistLen - or samples long   *)
(* ones under -simulate - and prints each as one JSON line.  The harness   *)
(* executes the calls on real WeakDoms, logs the real post-states, and     *)
(* WeakDomTrace judges the log.                                            *)
(***************************************************************************)
EXTENDS MCWeakDom, Json

CONSTANTS HistLen

VARIABLE hist
hvars == <<owner, parent, kids, label, refp, root, nextRef, uid, uidset, seen, hist>>

UidPatterns(n) == { [i \in 1..n |-> NoUid], [i \in 1..n |-> 1], [i \in 1..n |-> i] }

HBuilders ==
    UNION { { [i \in 1..Len(sh) |->
                 [pi |-> sh[i], label |-> nextRef + i - 1, refp |-> AbsentAll, uid |-> us[i]]]
              : us \in UidPatterns(Len(sh)) }
            : sh \in Shapes }

Log(e) == hist' = Append(hist, e)

HStep ==
    \/ \E d \in Doms : \E p \in In(d) \cup {Null} : \E b \in HBuilders :
          Insert(d, p, b) /\ Log([op |-> "insert", d |-> d, p |-> p, b |-> b])
    \* a builder whose first or last node carries the referent of an instance of the DOM (the lowest one: which
    \* instance it is makes no difference to the specification)
    \/ \E d \in Doms : \E p \in In(d) \cup {Null} : \E b \in HBuilders : \E k \in {1, Len(b)} :
          LET c == CHOOSE x \in In(d) : \A y \in In(d) : x <= y IN
          /\ In(d) # {}
          /\ \A i \in 1..Len(b) : b[i].uid = NoUid
          /\ InsertCollide(d, p, b, k, c)
          /\ Log([op |-> "insert_collide", d |-> d, p |-> p, b |-> b, k |-> k, c |-> c])
    \* calls the documentation promises to refuse
    \/ \E d \in Doms : \E kind \in RootKinds : \E p \in In(3 - d) \cup In(d) :
          LET r == IF root[d] \in Refs THEN root[d] ELSE Null IN
          /\ (kind = "transfer_root") = (p \in In(3 - d))
          /\ kind # "destroy_root" \/ p = (CHOOSE x \in In(d) : TRUE)
          /\ BadCall(kind, d, r)
          /\ hist' = Append(hist, [op |-> "bad", kind |-> kind, d |-> d, r |-> r, p |-> p])
    \/ \E d \in Doms : \E kind \in MissingKinds : \E r \in (1..(nextRef - 1)) \ In(d) :
          /\ BadCall(kind, d, r)
          /\ \E p \in In(d) : p = (CHOOSE x \in In(d) : TRUE)
                              /\ hist' = Append(hist, [op |-> "bad", kind |-> kind, d |-> d, r |-> r, p |-> p])
    \/ \E d \in Doms : \E r \in In(d) :
          Destroy(d, r) /\ Log([op |-> "destroy", d |-> d, r |-> r])
    \/ \E d \in Doms : \E r \in In(d) : \E e \in Doms : \E p \in In(e) :
          Transfer(d, r, e, p) /\ Log([op |-> "transfer", d |-> d, r |-> r, e |-> e, p |-> p])
    \/ \E d \in Doms : \E r \in In(d) : \E p \in In(d) :
          TransferWithin(d, r, p) /\ Log([op |-> "transfer_within", d |-> d, r |-> r, p |-> p])
    \/ \E d \in Doms : \E r \in In(d) : \E p \in In(d) :
          /\ TransferWithinRejected(d, r, p)
          /\ Log([op |-> "transfer_within_bad", d |-> d, r |-> r, p |-> p])
    \/ \E d \in Doms : \E r \in In(d) :
          Clone(d, <<r>>, d) /\ Log([op |-> "clone", d |-> d, rs |-> <<r>>, e |-> d])
    \/ \E d \in Doms : \E e \in Doms \ {d} : \E rs \in RootSeqs(d) : \E multi \in BOOLEAN :
          /\ (Len(rs) > 1 => multi)
          /\ Clone(d, rs, e)
          /\ Log([op |-> "clone", d |-> d, rs |-> rs, e |-> e, multi |-> multi])
    \/ \E r \in Live : \E s \in Slots : \E v \in (1..(nextRef - 1)) \cup {Null} :
          SetRef(r, s, v) /\ Log([op |-> "setref", r |-> r, s |-> s, v |-> v])

HNext == Len(hist) < NumDoms + HistLen /\ HStep

RootBuilder(k) == <<[pi |-> 0, label |-> k, refp |-> AbsentAll, uid |-> NoUid]>>

HInit == MCInit /\ hist = [d \in Doms |-> [op |-> "new", d |-> d, b |-> RootBuilder(d)]]

HSpec == HInit /\ [][HNext]_hvars

HBound == Len(hist) <= NumDoms + HistLen

PrintHist == Len(hist) = NumDoms + HistLen => PrintT(<<"REPLAY", ToJson(hist)>>)

=============================================================================

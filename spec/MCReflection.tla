---------------------------- MODULE MCReflection ----------------------------
(***************************************************************************)
(* C16, binding A: TLC visits every class, property descriptor, default    *)
(* value and enum of the exported database as one state each and evaluates *)
(* the coherence predicate for that entry as an invariant, so a violation  *)
(* names the offending entry and the state counts are the coverage.        *)
(***************************************************************************)
EXTENDS Reflection

VARIABLE item

Items ==
    {<<"class", c, "">> : c \in Classes}
    \cup UNION {{<<"prop", c, p>> : p \in PropNames(c)} : c \in Classes}
    \cup UNION {{<<"default", c, n>> : n \in DOMAIN Class(c).defaults} : c \in Classes}
    \cup {<<"enum", e, "">> : e \in Enums}

Init == item \in Items
Next == UNCHANGED item
Spec == Init /\ [][Next]_item

Coherent ==
    CASE item[1] = "class"   -> ClassCoherent(item[2])
      [] item[1] = "prop"    -> DescriptorCoherent(item[2], item[3])
      [] item[1] = "default" -> DefaultCoherent(item[2], item[3])
      [] item[1] = "enum"    -> EnumCoherent(item[2])

\* every name any entry could make the codecs look up resolves without a dangling answer
LookupTotal ==
    item[1] \in {"prop", "default"} =>
        /\ Canonical(item[2], item[3]).st # "dangling"
        /\ Serialized(item[2], item[3]).st # "dangling"
        /\ \A sub \in {x \in Classes : Super(x) = item[2]} :      \* ... also when reached from a subclass
              Canonical(sub, item[3]).st # "dangling" /\ Serialized(sub, item[3]).st # "dangling"
=============================================================================

--------------------------- MODULE WeakDomTrace ---------------------------
(***************************************************************************)
(* Trace validation (bindings B and C) for WeakDom: a log recorded from    *)
(* the real rbx_dom_weak::WeakDom is accepted iff it is a behaviour of the *)
(* WeakDom specification.  Each line is one public call with its arguments *)
(* and the full projected post-state; the structural part of the state is  *)
(* computed by the specification's action and compared with the log, the   *)
(* UniqueId part is bound to the log and judged by the relation UidRule.   *)
(*                                                                         *)
(* A line that no action explains prints MISMATCH and validation resumes   *)
(* at the next "reset", so that one rejected episode does not hide the     *)
(* rest of the log.                                                        *)
(***************************************************************************)
EXTENDS WeakDom, Json, IOUtils

Rec == ndJsonDeserialize(IOEnv.TRACE)

VARIABLE l
tvars == <<owner, parent, kids, label, refp, root, nextRef, uid, uidset, seen, l>>

Ev == Rec[l]

\* full = FALSE: the UniqueId relation is not evaluated (used only to classify a mismatch)
UPart(full, U) == IF full THEN U ELSE seen' = seen

PostMatches ==
    LET P == Ev.post IN
    /\ owner'  = P.owner
    /\ parent' = P.parent
    /\ kids'   = P.kids
    /\ label'  = P.label
    /\ refp'   = P.refp
    /\ root'   = P.root
    /\ uid'    = P.uid
    /\ uidset' = [d \in Doms |-> SeqSet(P.uidset[d])]

Reset ==
    /\ owner'  = [r \in Refs |-> NoDom]
    /\ parent' = [r \in Refs |-> Null]
    /\ kids'   = [r \in Refs |-> <<>>]
    /\ label'  = [r \in Refs |-> NoLabel]
    /\ refp'   = [r \in Refs |-> AbsentAll]
    /\ uid'    = [r \in Refs |-> NoUid]
    /\ uidset' = [d \in Doms |-> {}]
    /\ root'   = [d \in Doms |-> Null]
    /\ nextRef' = 1
    /\ seen'   = {}

Explain(full) ==
    CASE Ev.op = "reset" -> Reset
      [] Ev.op = "new" ->
            /\ NewS(Ev.d, Ev.b) /\ uid' = Ev.post.uid /\ UPart(full, NewU(Ev.d, Ev.b)) /\ PostMatches
      [] Ev.op = "default" ->
            /\ DefaultS(Ev.d) /\ UPart(full, UidUnchanged) /\ Ev.outcome = "ok" /\ PostMatches
      [] Ev.op = "insert" ->
            /\ InsertS(Ev.d, Ev.p, Ev.b) /\ uid' = Ev.post.uid /\ UPart(full, InsertU(Ev.d, Ev.p, Ev.b))
            /\ Ev.ret = nextRef /\ PostMatches
      [] Ev.op = "insert_collide" ->
            /\ InsertCollideS(Ev.d, Ev.p, Ev.b, Ev.k, Ev.c) /\ uid' = Ev.post.uid
            /\ UPart(full, InsertCollideU(Ev.d, Ev.p, Ev.b, Ev.k))
            /\ Ev.outcome = "panic" /\ PostMatches
      [] Ev.op = "reserve" ->
            /\ ReserveS(Ev.d) /\ Ev.outcome = "ok" /\ PostMatches
      [] Ev.op = "bad" ->
            /\ BadCall(Ev.kind, Ev.d, Ev.r) /\ Ev.outcome = "panic" /\ PostMatches
      [] Ev.op = "destroy" ->
            /\ DestroyS(Ev.d, Ev.r) /\ uid' = Ev.post.uid /\ UPart(full, DestroyU(Ev.d, Ev.r)) /\ PostMatches
      [] Ev.op = "transfer" ->
            /\ TransferS(Ev.d, Ev.r, Ev.e, Ev.p) /\ uid' = Ev.post.uid
            /\ UPart(full, TransferU(Ev.d, Ev.r, Ev.e, Ev.p)) /\ PostMatches
      [] Ev.op = "transfer_within" ->
            /\ TransferWithinS(Ev.d, Ev.r, Ev.p) /\ UPart(full, UidUnchanged) /\ PostMatches
      [] Ev.op = "transfer_within_bad" ->
            /\ TransferWithinRejected(Ev.d, Ev.r, Ev.p) /\ Ev.outcome = "panic" /\ PostMatches
      [] Ev.op = "clone" ->
            /\ CloneS(Ev.d, Ev.rs, Ev.e) /\ uid' = Ev.post.uid /\ UPart(full, CloneU(Ev.d, Ev.rs, Ev.e))
            /\ Ev.ret = CloneRet(Ev.rs) /\ PostMatches
      [] Ev.op = "rawtrip" ->
            /\ RawTripS(Ev.d) /\ UPart(full, RawTripU(Ev.d)) /\ Ev.outcome = "ok" /\ PostMatches
      [] Ev.op = "setref" ->
            /\ SetRefS(Ev.r, Ev.s, Ev.v) /\ UPart(full, UidUnchanged) /\ PostMatches
      \* a DOM handed over by a file reader: it must be a well-formed forest whose UniqueIds are
      \* pairwise distinct and exactly mirrored by the bookkeeping set; then it is adopted as DOM Ev.d
      [] Ev.op = "decoded" ->
            LET P == Ev.post IN
            /\ WF(P.owner, P.parent, P.kids, P.root)
            /\ (full => UidOK(P.owner, P.uid, [d \in Doms |-> SeqSet(P.uidset[d])]))
            /\ nextRef' = Ev.next
            /\ seen' = seen \cup ({P.uid[r] : r \in Refs} \ {NoUid})
            /\ PostMatches
      [] Ev.op = "walk" ->
            /\ Ev.start \in Refs /\ owner[Ev.start] # NoDom
            /\ TopDown(Ev.start, Ev.yield)
            /\ UNCHANGED vars
      [] OTHER -> FALSE

Match == l <= Len(Rec) /\ l' = l + 1 /\ Explain(TRUE)
MatchStruct == l <= Len(Rec) /\ l' = l + 1 /\ Explain(FALSE)

\* diagnosis of a rejected line: is the logged state at least a well-formed forest, and is
\* the disagreement confined to the UniqueId part?
LoggedWF == IF "post" \in DOMAIN Ev
            THEN WF(Ev.post.owner, Ev.post.parent, Ev.post.kids, Ev.post.root) ELSE TRUE

\* a rejected clone whose copies do not carry the UniqueId PROPERTY exactly where their originals do (a copy may get
\* another id - that is C12's business - but not lose the property or gain one: "matches the original in ... property
\* values", C11)
ClonePresenceDiffers ==
    /\ Ev.op = "clone" /\ "post" \in DOMAIN Ev
    /\ LET order == CloneOrder(Ev.rs)
           new   == nextRef..(nextRef + Len(order) - 1)
       IN \E x \in new \cap Refs : (uid[order[x - nextRef + 1]] = NoUid) # (Ev.post.uid[x] = NoUid)

NextReset(k) ==
    LET later == {j \in (k + 1)..Len(Rec) : Rec[j].op = "reset"} IN
    IF later = {} THEN Len(Rec) + 1 ELSE CHOOSE j \in later : \A i \in later : j <= i

Skip ==
    /\ l <= Len(Rec)
    /\ ~ENABLED Match
    /\ PrintT(<<"MISMATCH", l, Ev.ep, Ev.op,
                 IF ENABLED MatchStruct THEN (IF ClonePresenceDiffers THEN "uid-presence" ELSE "uid") ELSE "struct",
                 IF LoggedWF THEN "wf" ELSE "illformed">>)
    /\ l' = NextReset(l)
    /\ UNCHANGED vars

Finish ==
    /\ l = Len(Rec) + 1
    /\ PrintT(<<"TRACE_DONE", Len(Rec)>>)
    /\ l' = l + 1
    /\ UNCHANGED vars

TraceInit == Init /\ l = 1
TraceNext == Match \/ Skip \/ Finish
TraceSpec == TraceInit /\ [][TraceNext]_tvars

=============================================================================

----------------------------- MODULE Reflection -----------------------------
(***************************************************************************)
(* The reflection database as a constant, and the one definition of what   *)
(* the codecs' property lookups mean.  The database is exported from the   *)
(* working tree on every run (rbxv export-db) and loaded whole.            *)
(*                                                                         *)
(* Transcribed from the documented meaning of PropertyKind /               *)
(* PropertySerialization (rbx_reflection/src/database.rs,                  *)
(* docs/patching-database.md), not from the two find_property_descriptors  *)
(* copies in rbx_binary/src/core.rs and rbx_xml/src/core.rs - those are    *)
(* the implementations this module is the reference for.                   *)
(***************************************************************************)
EXTENDS Integers, Sequences, FiniteSets, TLC, Json, IOUtils

DB == JsonDeserialize(IOEnv.DBJSON)

Classes == DOMAIN DB.classes
Enums   == DOMAIN DB.enums
\* lookup results are records with a status field (TLC cannot compare a record with a string)
None     == [st |-> "none"]       \* no answer (property unknown / does not serialize)
Dangling == [st |-> "dangling"]   \* the database refers to something that does not exist
Found(dc, d) == [st |-> "ok", class |-> dc, desc |-> d]
IsOk(k) == k.st = "ok"

Class(c)  == DB.classes[c]
Super(c)  == Class(c).superclass
Props(c)  == Class(c).props
PropNames(c) == DOMAIN Props(c)

MaxChain == 32

\* c, Superclass(c), ... ; ends with "!dangling" / "!cycle" markers when the chain is broken
RECURSIVE ChainN(_, _)
ChainN(c, n) ==
    IF n = 0 THEN <<"!cycle">>
    ELSE IF c \notin Classes THEN <<"!dangling">>
    ELSE IF Super(c) = "" THEN <<c>>
    ELSE <<c>> \o ChainN(Super(c), n - 1)
Chain(c) == ChainN(c, MaxChain)
ChainOK(c) == LET ch == Chain(c) IN ch[Len(ch)] \notin {"!cycle", "!dangling"}

\* the nearest class on the chain that declares p
DeclaringClass(c, p) ==
    LET ch == Chain(c)
        hits == {i \in 1..Len(ch) : ch[i] \in Classes /\ p \in PropNames(ch[i])}
    IN IF hits = {} THEN "" ELSE ch[CHOOSE i \in hits : \A j \in hits : i <= j]

\* [class |-> declaring class, desc |-> descriptor record], or None / Dangling
Canonical(c, p) ==
    LET dc == DeclaringClass(c, p) IN
    IF dc = "" THEN None
    ELSE LET d == Props(dc)[p] IN
         IF d.kind = "canonical" THEN Found(dc, d)
         ELSE IF d.kind = "alias"
              THEN IF d.alias_for \in PropNames(dc) /\ Props(dc)[d.alias_for].kind = "canonical"
                   THEN Found(dc, Props(dc)[d.alias_for])
                   ELSE Dangling
         ELSE Dangling

\* the descriptor under whose name and type the property is stored in a file
Serialized(c, p) ==
    LET k == Canonical(c, p) IN
    IF ~IsOk(k) THEN k
    ELSE IF k.desc.ser \in {"serializes", "migrate"} THEN k
    ELSE IF k.desc.ser = "no" THEN None
    ELSE IF k.desc.ser = "as"
         THEN IF k.desc.ser_as \in PropNames(k.class)
              THEN Found(k.class, Props(k.class)[k.desc.ser_as])
              ELSE Dangling
    ELSE Dangling

CanonicalName(c, p) == LET k == Canonical(c, p) IN IF ~IsOk(k) THEN "" ELSE k.desc.name
SerializedName(c, p) == LET k == Serialized(c, p) IN IF ~IsOk(k) THEN "" ELSE k.desc.name

\* type name as the codecs see it: enums are one wire type
TypeOf(d) == IF d.dkind = "enum" THEN "Enum" ELSE d.dtype
CanonicalType(c, p) == LET k == Canonical(c, p) IN IF ~IsOk(k) THEN "" ELSE TypeOf(k.desc)
SerializedType(c, p) == LET k == Serialized(c, p) IN IF ~IsOk(k) THEN "" ELSE TypeOf(k.desc)

Migrates(c, p) == LET k == Canonical(c, p) IN IsOk(k) /\ k.desc.ser = "migrate"
MigrationTarget(c, p) == Canonical(c, p).desc.mig_to
MigrationOp(c, p) == Canonical(c, p).desc.mig_op

\* nearest class on the chain with a default for the (canonical) name n
DefaultOf(c, n) ==
    LET ch == Chain(c)
        hits == {i \in 1..Len(ch) : ch[i] \in Classes /\ n \in DOMAIN Class(ch[i]).defaults}
    IN IF hits = {} THEN [t |-> "none"]
       ELSE Class(ch[CHOOSE i \in hits : \A j \in hits : i <= j]).defaults[n]
HasDefault(c, n) == DefaultOf(c, n).t # "none"

-----------------------------------------------------------------------------
(* Type tables of the two codecs (README "implemented" columns).             *)

BinaryTypes == {"String", "BinaryString", "ContentId", "Tags", "MaterialColors", "Attributes", "Bool", "Int32",
                "Float32", "Float64", "UDim", "UDim2", "Ray", "Faces", "Axes", "BrickColor", "Color3",
                "Vector2", "Vector3", "CFrame", "Enum", "Ref", "Vector3int16", "NumberSequence",
                "ColorSequence", "NumberRange", "Rect", "PhysicalProperties", "Color3uint8", "Int64",
                "SharedString", "OptionalCFrame", "UniqueId", "Font", "SecurityCapabilities", "Content"}

XmlTypes == (BinaryTypes \cup {"Vector2int16"}) \ {}

-----------------------------------------------------------------------------
(* C16: coherence, one predicate per kind of database entry.                 *)

ClassCoherent(c) ==
    /\ Class(c).name = c
    /\ ChainOK(c)

\* every descriptor: alias and serializes-as targets live in the same class, migration
\* targets resolve to a serializable property, enums exist, the serialized type is one
\* both codecs know (or the property does not serialize)
DescriptorCoherent(c, p) ==
    LET d == Props(c)[p] IN
    /\ d.name = p
    /\ d.kind \in {"canonical", "alias"}
    /\ d.dkind \in {"value", "enum"}
    /\ d.dkind = "enum" => d.dtype \in Enums
    /\ d.kind = "alias" =>
          /\ d.alias_for \in PropNames(c)
          /\ Props(c)[d.alias_for].kind = "canonical"
    /\ d.kind = "canonical" =>
          /\ d.ser \in {"serializes", "no", "as", "migrate"}
          /\ d.ser = "as" =>
                /\ d.ser_as \in PropNames(c)
                /\ IsOk(Serialized(c, d.ser_as))        \* the target is itself a serializable property
          /\ d.ser = "migrate" =>
                /\ d.mig_op \in {"IgnoreGuiInsetToScreenInsets", "FontToFontFace",
                                 "BrickColorToColor", "ContentIdToContent"}
                /\ IsOk(Serialized(c, d.mig_to))
                /\ ~Migrates(c, d.mig_to)
    /\ Canonical(c, p).st # "dangling"
    /\ Serialized(c, p).st # "dangling"
    /\ IsOk(Serialized(c, p)) =>
          /\ SerializedType(c, p) \in BinaryTypes
          /\ SerializedType(c, p) \in XmlTypes
          /\ CanonicalType(c, p) \in BinaryTypes

\* every default belongs to a property the lookup finds, is stored under its canonical name,
\* and has the property's declared type or the type it serializes as
DefaultCoherent(c, n) ==
    LET v == Class(c).defaults[n]
        k == Canonical(c, n)
    IN
    /\ IsOk(k)
    /\ k.desc.name = n
    /\ \/ v.t = TypeOf(k.desc)
       \/ (IsOk(Serialized(c, n)) /\ v.t = SerializedType(c, n))

EnumCoherent(e) == DB.enums[e].name = e

=============================================================================

------------------------------ MODULE TextForms ------------------------------
(***************************************************************************)
(* Text forms of UniqueId (C17), at parametric width so that TLC can check *)
(* them exhaustively at width 8: Display prints the two's complement bit   *)
(* pattern of each field as fixed-width hexadecimal; FromStr must accept   *)
(* everything Display prints.                                              *)
(*   Parser = "unsigned_reinterpret"  parse the digits as unsigned and     *)
(*            reinterpret (the code since the fix)                         *)
(*   Parser = "signed"  parse as a signed number (i64::from_str_radix, the *)
(*            code before): rejects patterns with the top bit set          *)
(***************************************************************************)
EXTENDS Integers, Sequences, FiniteSets, TLC

CONSTANTS Width,     \* bits of the `random` field in the model (8)
          Parser

Values == -(2 ^ (Width - 1))..(2 ^ (Width - 1) - 1)          \* signed range of the field
Pattern(v) == IF v >= 0 THEN v ELSE v + 2 ^ Width             \* two's complement bit pattern as a number
\* Display: the pattern, as Width/4 hex digits (modelled as the number itself: the digit string is its numeral)
Display(v) == Pattern(v)
\* FromStr on a digit string denoting the unsigned number n
Parse(n) == IF Parser = "signed"
            THEN IF n <= 2 ^ (Width - 1) - 1 THEN n ELSE -100000   \* error: out of the signed range
            ELSE IF n <= 2 ^ (Width - 1) - 1 THEN n ELSE n - 2 ^ Width

RoundTrips == \A v \in Values : Parse(Display(v)) = v

\* Faces / Axes: a bit set and its list of names are in bijection (order of names is the bit order)
FaceNames == <<"Right", "Top", "Back", "Left", "Bottom", "Front">>     \* bit 0 .. bit 5 (rbx_types::Faces)
AxisNames == <<"X", "Y", "Z">>
Bit(n, i) == (n \div (2 ^ i)) % 2
NamesOf(names, bits) == LET idx == {i \in 1..Len(names) : Bit(bits, i - 1) = 1}
                            RECURSIVE Go(_)
                            Go(S) == IF S = {} THEN <<>> ELSE LET m == CHOOSE x \in S : \A y \in S : x <= y IN <<names[m]>> \o Go(S \ {m})
                        IN Go(idx)
BitsOfNames(names, list) == LET RECURSIVE Sum(_)
                                Sum(i) == IF i > Len(list) THEN 0
                                          ELSE 2 ^ ((CHOOSE k \in 1..Len(names) : names[k] = list[i]) - 1) + Sum(i + 1)
                            IN Sum(1)
BitsetBijective == /\ \A b \in 0..63 : BitsOfNames(FaceNames, NamesOf(FaceNames, b)) = b
                   /\ \A b \in 0..7 : BitsOfNames(AxisNames, NamesOf(AxisNames, b)) = b

VARIABLE dummy
Spec == dummy = 0 /\ [][UNCHANGED dummy]_dummy
Holds == RoundTrips /\ BitsetBijective
=============================================================================

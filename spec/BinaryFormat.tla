---------------------------- MODULE BinaryFormat ----------------------------
(***************************************************************************)
(* What a binary file MEANS (docs/binary.md, one level above BinaryWire),  *)
(* what a file written for a given forest must look like (C03), and which  *)
(* forest must come back when it is read (C01).                            *)
(*                                                                         *)
(* A file is given as [header, chunks, trailing]; each chunk carries its   *)
(* 16 frame bytes, the stored length, the compression method and the       *)
(* decompressed data.  A forest (before / after) is the harness's          *)
(* projection PForest: instances numbered in pre-order, Ref values shown   *)
(* as positions in that numbering.                                         *)
(***************************************************************************)
EXTENDS AttrWire, Reflection, Tables

-----------------------------------------------------------------------------
(* Structure of a file                                                       *)

ChunkIdx(F, nm) == {i \in 1..Len(F.chunks) : F.chunks[i].name = nm}
Data(F, i) == F.chunks[i].payload

Insts(F) == [i \in ChunkIdx(F, "INST") |-> DecodeInst(Data(F, i))]
InstOfClassId(F, id) == CHOOSE i \in ChunkIdx(F, "INST") : Insts(F)[i].id = id
HasClassId(F, id) == \E i \in ChunkIdx(F, "INST") : Insts(F)[i].id = id

AllRefs(F) == UNION {{Insts(F)[i].refs[k] : k \in 1..Insts(F)[i].n} : i \in ChunkIdx(F, "INST")}
InstChunkOfRef(F, r) == CHOOSE i \in ChunkIdx(F, "INST") : \E k \in 1..Insts(F)[i].n : Insts(F)[i].refs[k] = r
PosInClass(F, r) == LET I == Insts(F)[InstChunkOfRef(F, r)] IN CHOOSE k \in 1..I.n : I.refs[k] = r

FProps(F, dialect) ==
    [i \in ChunkIdx(F, "PROP") |->
        LET cid == Id32LE(Data(F, i), 1) IN
        IF HasClassId(F, cid) THEN DecodeProp(dialect, Data(F, i), Insts(F)[InstOfClassId(F, cid)].n)
        ELSE [class |-> cid, name |-> <<>>, present |-> FALSE, orphan |-> TRUE]]

Prnt(F) == DecodePrnt(Data(F, CHOOSE i \in ChunkIdx(F, "PRNT") : TRUE))
Sstr(F) == IF ChunkIdx(F, "SSTR") = {} THEN [version |-> 0, n |-> 0, strings |-> <<>>, ok |-> TRUE]
           ELSE DecodeSstr(Data(F, CHOOSE i \in ChunkIdx(F, "SSTR") : TRUE))

NoDupSeq(s) == \A i, j \in 1..Len(s) : i # j => s[i] # s[j]
Pos(s, x) == CHOOSE i \in 1..Len(s) : s[i] = x

\* C03, structural half: everything the property statement lists
WriterInvariants(F, dialect) ==
    LET n   == Len(F.chunks)
        I   == Insts(F)
        P   == FProps(F, dialect)
        pr  == Prnt(F)
        ss  == Sstr(F)
        inst == ChunkIdx(F, "INST")
        prop == ChunkIdx(F, "PROP")
    IN
    /\ HeaderOK(F.header)
    /\ F.trailing = 0
    /\ \A i \in 1..n : FrameOK(F.chunks[i])                          \* length fields match the payloads
    /\ \A i \in 1..n : F.chunks[i].name \in {"META", "SSTR", "INST", "PROP", "PRNT", "END"}
    \* the file ends with the uncompressed END chunk holding </roblox>
    /\ n >= 2 /\ F.chunks[n].name = "END" /\ F.chunks[n].method = "none" /\ F.chunks[n].payload = EndMagic
    /\ ChunkIdx(F, "END") = {n}
    \* exactly one PRNT, right before END; at most one SSTR / META; INSTs before PROPs
    /\ ChunkIdx(F, "PRNT") = {n - 1}
    /\ Cardinality(ChunkIdx(F, "SSTR")) <= 1 /\ Cardinality(ChunkIdx(F, "META")) <= 1
    /\ \A i \in inst, j \in prop : i < j
    /\ \A i \in ChunkIdx(F, "SSTR"), j \in inst \cup prop : i < j
    \* header counts match the body
    /\ HeaderClasses(F.header) = Cardinality(inst)
    /\ \A i \in inst : I[i].ok
    /\ HeaderInstances(F.header) = Cardinality(AllRefs(F))
    \* one instance chunk per class, unique class ids, no referent twice
    /\ \A i, j \in inst : i # j => (I[i].id # I[j].id /\ I[i].class # I[j].class)
    /\ \A i \in inst : NoDupSeq(I[i].refs)
    /\ \A i, j \in inst : i # j => {I[i].refs[k] : k \in 1..I[i].n} \cap {I[j].refs[k] : k \in 1..I[j].n} = {}
    \* every property chunk: known class, a type byte, exactly one value per instance, one chunk per (class, name)
    /\ \A i \in prop : /\ HasClassId(F, P[i].class)
                       /\ P[i].present /\ P[i].t # "?" /\ P[i].ok
                       /\ Len(P[i].values) = I[InstOfClassId(F, P[i].class)].n
    /\ \A i, j \in prop : i # j => <<P[i].class, P[i].name>> # <<P[j].class, P[j].name>>
    \* every instance exactly once in PRNT, children listed before their parents
    /\ pr.ok /\ pr.version = 0 /\ pr.n = HeaderInstances(F.header)
    /\ NoDupSeq(pr.child) /\ {pr.child[k] : k \in 1..pr.n} = AllRefs(F)
    /\ \A k \in 1..pr.n : pr.parent[k] = -1
                          \/ (pr.parent[k] \in AllRefs(F) /\ Pos(pr.child, pr.parent[k]) > k)
    \* each distinct SharedString stored once; every index used by a property is defined
    /\ ss.ok /\ ss.version = 0 /\ NoDupSeq(ss.strings)
    /\ \A i \in prop : P[i].t = "SharedString" => \A k \in 1..Len(P[i].values) : P[i].values[k] \in 0..(ss.n - 1)

\* diagnosis for a failed WriterInvariants: the property chunks that do not decode
BadPropChunks(F, dialect) ==
    LET P == FProps(F, dialect) IN
    { <<i, "", P[i].t, "prop-chunk-undecodable">> :
        i \in {i \in ChunkIdx(F, "PROP") : P[i].present /\ "ok" \in DOMAIN P[i] /\ ~P[i].ok} }

-----------------------------------------------------------------------------
(* The forest a file describes                                               *)

KidsOf(pr, r) == LET idx == {k \in 1..pr.n : pr.parent[k] = r}
                     RECURSIVE Go(_)
                     Go(S) == IF S = {} THEN <<>>
                              ELSE LET m == CHOOSE k \in S : \A j \in S : k <= j IN <<pr.child[m]>> \o Go(S \ {m})
                 IN Go(idx)

RECURSIVE PreOrderFrom(_, _, _)
PreOrderFrom(pr, stack, fuel) ==
    IF stack = <<>> \/ fuel = 0 THEN <<>>
    ELSE <<Head(stack)>> \o PreOrderFrom(pr, KidsOf(pr, Head(stack)) \o Tail(stack), fuel - 1)

FileOrder(F) == LET pr == Prnt(F) IN PreOrderFrom(pr, KidsOf(pr, -1), pr.n + 1)

\* value of property column i for referent r
ColumnValue(F, P, i, r) == P[i].values[PosInClass(F, r)]
\* (a chunk that ends after its name or carries an unknown type id is skipped, per the document)
ColumnsOf(F, P, r) == {i \in DOMAIN P : P[i].present /\ P[i].t # "?" /\ HasClassId(F, P[i].class)
                                         /\ InstOfClassId(F, P[i].class) = InstChunkOfRef(F, r)}

-----------------------------------------------------------------------------
(* Permitted normalisations (property C01), on the byte-vector representation *)

Eps == <<52, 0, 0, 0>>                 \* f32::EPSILON = 2^-23
OneLo == <<63, 127, 255, 254>>         \* 1 - 2^-23
OneHi == <<63, 128, 0, 1>>             \* 1 + 2^-23
Mag(w) == <<w[1] % 128, w[2], w[3], w[4]>>
RECURSIVE LeqFrom(_, _, _)
LeqFrom(a, b, i) == IF i > Len(a) THEN TRUE ELSE IF a[i] < b[i] THEN TRUE ELSE IF a[i] > b[i] THEN FALSE ELSE LeqFrom(a, b, i + 1)
Leq(a, b) == LeqFrom(a, b, 1)
NearZero(w) == Leq(Mag(w), Eps)
NearOne(w)  == Leq(OneLo, Mag(w)) /\ Leq(Mag(w), OneHi)
Near(w, e)  == IF e = Z4 THEN NearZero(w)
               ELSE IF e = P1 THEN w[1] < 128 /\ NearOne(w)
               ELSE w[1] >= 128 /\ NearOne(w)
NearRotation(m, id) == \A k \in 1..9 : Near(m[k], BasicRotation(id)[k])
\* a rotation within float epsilon of one of the 24 axis-aligned bases snaps to it
SnapRotation(m) == IF \E id \in BasicRotationIds : NearRotation(m, id)
                   THEN BasicRotation(CHOOSE id \in BasicRotationIds : NearRotation(m, id))
                   ELSE m
SnapCFrame(v) == IF v = <<>> THEN v ELSE SubSeq(v, 1, 3) \o SnapRotation(SubSeq(v, 4, 12))

\* Color3 component -> 8 bits.  TLA+ has no float multiplication; the relation pins the result
\* to the candidates around x*255 using the exact table K255[k+1] = bits(k/255) (positive floats
\* are ordered like their bit patterns).
Quantised(x, q) ==
    IF x[1] >= 128 THEN q = 0                                             \* negative (incl. -0, -NaN handled below)
                        \/ Leq(<<255, 128, 0, 1>>, x)                      \* negative NaN: any byte
    ELSE IF Leq(<<127, 128, 0, 1>>, x) THEN TRUE                          \* NaN: any byte
    ELSE IF Leq(P1, x) THEN q = 255                                       \* >= 1 (incl. +inf)
    ELSE \E k \in 0..254 : Leq(K255[k + 1], x) /\ Leq(x, K255[k + 2]) /\ q \in {k, k + 1}

\* exact widenings of the legacy narrower numeric encodings (docs/compatibility.md)
SignExtend(w4) == (IF w4[1] >= 128 THEN <<255, 255, 255, 255>> ELSE <<0, 0, 0, 0>>) \o w4

RECURSIVE BitsOf(_, _)
BitsOf(n, k) == IF k = 0 THEN <<>> ELSE BitsOf(n \div 2, k - 1) \o <<n % 2>>
ByteBits(w) == LET RECURSIVE G(_) G(i) == IF i > Len(w) THEN <<>> ELSE BitsOf(w[i], 8) \o G(i + 1) IN G(1)
BitsVal(bs) == LET RECURSIVE V(_, _) V(i, acc) == IF i > Len(bs) THEN acc ELSE V(i + 1, 2 * acc + bs[i]) IN V(1, 0)
BitsBytes(bs) == [j \in 1..(Len(bs) \div 8) |-> BitsVal(SubSeq(bs, 8 * j - 7, 8 * j))]
Zeros(k) == [i \in 1..k |-> 0]

\* f32 bit pattern -> bit pattern of the same real number as f64 (NaN payloads shifted, as the hardware does)
WidenF32(w) ==
    LET b  == ByteBits(w)
        s  == b[1]
        e  == BitsVal(SubSeq(b, 2, 9))
        m  == SubSeq(b, 10, 32)
        lead == IF \E i \in 1..23 : m[i] = 1 THEN CHOOSE i \in 1..23 : m[i] = 1 /\ \A j \in 1..(i - 1) : m[j] = 0 ELSE 0
    IN BitsBytes(
         IF e = 255 THEN <<s>> \o BitsOf(2047, 11) \o m \o Zeros(29)
         ELSE IF e = 0 /\ lead = 0 THEN <<s>> \o Zeros(63)
         ELSE IF e = 0 THEN <<s>> \o BitsOf(897 - lead, 11) \o SubSeq(m, lead + 1, 23) \o Zeros(29 + lead)
         ELSE <<s>> \o BitsOf(e + 896, 11) \o m \o Zeros(29))

JoinNul(tags) == LET RECURSIVE J(_)
                     J(i) == IF i > Len(tags) THEN <<>>
                             ELSE tags[i] \o (IF i < Len(tags) THEN <<0>> ELSE <<>>) \o J(i + 1)
                 IN J(1)

StringLike == {"String", "BinaryString", "ContentId", "Tags", "MaterialColors", "Attributes"}

-----------------------------------------------------------------------------
(* Expected storage of one property of a before-instance.                    *)
(* A prop entry is <<name (string), value [t, v], name bytes>>.              *)

IsKnown(class, pn) == class \in Classes /\ IsOk(Canonical(class, pn))

\* ---- legacy properties (PropertySerialization::Migrate) ----------------------------------
\* The value a legacy value turns into.  BrickColor -> Color3uint8 through the colour table
\* exported with the database; Bool -> ScreenInsets enum; ContentId -> Content; the Font enum ->
\* Font face table is left uninterpreted ("FontMig" carries the enum value; only its being a Font
\* and agreement between paths are required).
MigValue(op, pv) ==
    CASE op = "BrickColorToColor" /\ pv.t = "BrickColor" ->
            [t |-> "Color3uint8", v |-> DB.brickcolors[pv.v + 1]]
      [] op = "IgnoreGuiInsetToScreenInsets" /\ pv.t = "Bool" ->
            [t |-> "Enum", v |-> IF pv.v = 1 THEN <<0, 0, 0, 1>> ELSE <<0, 0, 0, 2>>]
      [] op = "ContentIdToContent" /\ pv.t = "ContentId" ->
            [t |-> "Content", v |-> IF pv.v = <<>> THEN <<0>> ELSE <<1, pv.v>>]
      [] op = "FontToFontFace" /\ pv.t = "Enum" -> [t |-> "FontMig", v |-> pv.v]
      [] OTHER -> pv

IsLegacy(class, pn) == class \in Classes /\ Migrates(class, pn)
TargetOf(class, pn) == Canonical(class, MigrationTarget(class, pn))

\* the logical properties of an instance: a legacy property stands for its new property with the
\* migrated value, unless the instance carries the new property explicitly (then it is dropped)
EffectiveProps(class, props) ==
    LET carriesExplicit(tn) == \E y \in 1..Len(props) :
                                  /\ ~IsLegacy(class, props[y][1])
                                  /\ IsKnown(class, props[y][1]) /\ CanonicalName(class, props[y][1]) = tn
        keep == SelectSeq([x \in 1..Len(props) |-> x],
                          LAMBDA x : ~(IsLegacy(class, props[x][1]) /\ carriesExplicit(TargetOf(class, props[x][1]).desc.name)))
    IN [i \in 1..Len(keep) |->
          LET prop == props[keep[i]] IN
          IF IsLegacy(class, prop[1])
          THEN LET t == TargetOf(class, prop[1]).desc IN
               <<t.name, MigValue(MigrationOp(class, prop[1]), prop[2]), t.name_b>>
          ELSE prop]
Serializes(class, pn) == IsOk(Serialized(class, pn))

\* name under which the value is stored in the file / shown after reading
StoredName(class, prop) == IF class \in Classes /\ IsOk(Canonical(class, prop[1]))
                           THEN Serialized(class, prop[1]).desc.name_b ELSE prop[3]
ShownName(class, prop)  == IF class \in Classes /\ IsOk(Canonical(class, prop[1]))
                           THEN Canonical(class, prop[1]).desc.name ELSE prop[1]
\* the property is written at all (known properties that do not serialize are dropped)
IsStored(class, prop) == ~(class \in Classes /\ IsOk(Canonical(class, prop[1]))) \/ Serializes(class, prop[1])

\* what an attribute map looks like after a trip through its blob (docs/attributes.md: there is
\* no String type on the wire distinct from BinaryString; rotations are stored like CFrames; a
\* cached face id is always present and may be empty)
NormAttrVal(pv) == IF pv.t = "String" THEN [t |-> "BinaryString", v |-> pv.v]
                   ELSE IF pv.t = "CFrame" THEN [t |-> "CFrame", v |-> SnapCFrame(pv.v)]
                   ELSE IF pv.t = "Font" THEN [t |-> "Font", v |-> <<pv.v[1], pv.v[2], pv.v[3], IF pv.v[5] = <<>> THEN 0 ELSE 1, pv.v[5]>>]
                   ELSE pv
NormAttrs(v) == [i \in 1..Len(v) |-> <<v[i][1], NormAttrVal(v[i][2])>>]

\* the blob stored for an Attributes value is the one docs/attributes.md describes (C14): decoded by
\* AttrWire it gives back the map (entry order is free; names are unique)
AttrBlobOK(blob, attrs) ==
    LET d == DecodeAttrs(blob) IN
    /\ d.ok
    /\ Len(d.v) = Len(attrs)
    /\ {d.v[i] : i \in 1..Len(d.v)} = {NormAttrs(attrs)[i] : i \in 1..Len(attrs)}

\* w: decoded wire payload, wt: wire type name, pv: the value the DOM held
WireOK(w, wt, pv, order, sstr) ==
    LET V == pv.t  v == pv.v IN
    CASE V \in {"String", "BinaryString", "ContentId", "MaterialColors"} -> wt = "String" /\ w = v
      [] V = "Tags"       -> wt = "String" /\ w = JoinNul(v)
      [] V = "Attributes" -> wt = "String" /\ AttrBlobOK(w, v)
      [] V \in {"CFrame", "OptionalCFrame"} -> wt = V /\ w = SnapCFrame(v)
      [] V = "Ref"        -> wt = "Ref" /\ w = (IF v > 0 THEN order[v] ELSE -1)
      [] V = "SharedString" -> wt = "SharedString" /\ w + 1 \in 1..Len(sstr.strings) /\ sstr.strings[w + 1] = v
      [] V = "Font"       -> wt = "Font" /\ w = <<v[1], v[2], v[3], v[5]>>
      [] V = "Content"    -> wt = "Content" /\ w = (IF v[1] = 2 THEN <<2, IF v[2] > 0 THEN order[v[2]] ELSE -1>> ELSE v)
      [] V = "EnumItem"   -> wt = "Enum" /\ w = v[2]
      [] V = "FontMig"    -> wt = "Font"
      [] V = "Int64" /\ wt = "Int32"     -> SignExtend(w) = v         \* narrower legacy encodings
      [] V = "Float64" /\ wt = "Float32" -> WidenF32(w) = v
      [] V = "Color3" /\ wt = "Color3uint8" -> \A c \in 1..3 : Quantised(v[c], w[c])
      [] OTHER            -> wt = V /\ w = v

\* av: value shown by the DOM read back; pv: value written; known: the database knows the property
ReadOK(av, pv, known, serType) ==
    LET V == pv.t  v == pv.v IN
    CASE ~known /\ V \in {"String", "BinaryString", "ContentId", "MaterialColors"} -> av.t = "BinaryString" /\ av.v = v
      [] ~known /\ V = "Tags" -> av.t = "BinaryString" /\ av.v = JoinNul(v)
      [] ~known /\ V = "Attributes" -> av.t = "BinaryString" /\ AttrBlobOK(av.v, v)
      [] V = "EnumItem" -> av.t = "Enum" /\ av.v = v[2]          \* an Enum column accepts EnumItems; only the number is stored
      [] V \in {"CFrame", "OptionalCFrame"} -> av.t = V /\ av.v = SnapCFrame(v)
      [] V = "Attributes" -> av.t = "Attributes" /\ av.v = NormAttrs(v)
      [] V = "Ref" -> av.t = "Ref" /\ av.v = (IF v > 0 THEN v ELSE 0)
      [] V = "Content" -> av.t = "Content" /\ av.v = (IF v[1] = 2 THEN <<2, IF v[2] > 0 THEN v[2] ELSE 0>> ELSE v)
      [] V = "Font" -> av.t = "Font" /\ av.v = <<v[1], v[2], v[3], IF v[5] = <<>> THEN 0 ELSE 1, v[5]>>
      [] V = "FontMig" -> av.t = "Font"
      [] V = "Color3" /\ serType = "Color3uint8" ->
             \/ (av.t = "Color3uint8" /\ \A c \in 1..3 : Quantised(v[c], av.v[c]))
             \/ (av.t = "Color3" /\ \A c \in 1..3 : \E q \in 0..255 : Quantised(v[c], q) /\ av.v[c] = K255[q + 1])
      [] OTHER -> av = pv

\* a default the writer may have filled in for an instance that lacked the property
DefaultWireOK(w, wt, class, canonName, order, sstr) ==
    IF class \in Classes /\ HasDefault(class, canonName)
    THEN WireOK(w, wt, DefaultOf(class, canonName), order, sstr)
    ELSE TRUE          \* neutral value of the type: only its presence is required here

-----------------------------------------------------------------------------
(* C03, semantic half: the file means exactly the forest B that was written. *)

FileIssues(F, B, dialect) ==
    LET order == FileOrder(F)
        N     == Len(B.inst)
        P     == FProps(F, dialect)
        pr    == Prnt(F)
        ss    == Sstr(F)
        I     == Insts(F)
        colNamed(r, nameBytes) == {i \in ColumnsOf(F, P, r) : P[i].name = nameBytes}
        NameBytes == <<78, 97, 109, 101>>
    IN
    IF Len(order) # N THEN {<<0, "", "", "instance-count">>}
    ELSE
    (IF KidsOf(pr, -1) # [k \in 1..Len(B.roots) |-> order[B.roots[k]]] THEN {<<0, "", "", "root-order">>} ELSE {})
    \cup UNION {
         LET r  == order[k]
             b0 == B.inst[k]
             bi == [b0 EXCEPT !.props = EffectiveProps(b0.class, b0.props)]
             sameClassOthers == {j \in 1..N : j # k /\ B.inst[j].class = bi.class}
         IN
         (IF I[InstChunkOfRef(F, r)].class # bi.class_b THEN {<<k, bi.class, "", "class">>} ELSE {})
         \cup (IF KidsOf(pr, r) # [c \in 1..Len(bi.kids) |-> order[bi.kids[c]]] THEN {<<k, bi.class, "", "child-order">>} ELSE {})
         \cup (IF \E i \in colNamed(r, NameBytes) : P[i].t = "String" /\ ColumnValue(F, P, i, r) = bi.name
               THEN {} ELSE {<<k, bi.class, "Name", "name">>})
         \* every property the instance carries is stored, under the serialized name, with its value
         \cup { <<k, bi.class, bi.props[x][1], "not-stored-as-written">> :
                  x \in { x \in 1..Len(bi.props) :
                            LET prop == bi.props[x] IN
                            /\ IsStored(bi.class, prop)
                            \* (an instance carrying two spellings of one logical property may show either value)
                            /\ ~\E i \in colNamed(r, StoredName(bi.class, prop)) :
                                   \E x2 \in 1..Len(bi.props) :
                                      /\ IsStored(bi.class, bi.props[x2])
                                      /\ StoredName(bi.class, bi.props[x2]) = StoredName(bi.class, prop)
                                      /\ WireOK(ColumnValue(F, P, i, r), P[i].t, bi.props[x2][2], order, ss) } }
         \* every other column of its class is one that a same-class instance carried, and shows the default
         \cup { <<k, bi.class, "", "unexplained-column">> :
                  i \in { i \in ColumnsOf(F, P, r) :
                            ~( \/ P[i].name = NameBytes
                               \/ \E x \in 1..Len(bi.props) :
                                     IsStored(bi.class, bi.props[x]) /\ StoredName(bi.class, bi.props[x]) = P[i].name
                               \/ \E j \in sameClassOthers : \E x \in 1..Len(EffectiveProps(bi.class, B.inst[j].props)) :
                                     LET prop == EffectiveProps(bi.class, B.inst[j].props)[x] IN
                                     /\ IsStored(bi.class, prop) /\ StoredName(bi.class, prop) = P[i].name
                                     /\ DefaultWireOK(ColumnValue(F, P, i, r), P[i].t, bi.class,
                                                      ShownName(bi.class, prop), order, ss) ) } }
         : k \in 1..N }

FileMeans(F, B, dialect) == FileIssues(F, B, dialect) = {}

-----------------------------------------------------------------------------
(* C01: the forest A read back equals NormBin(B).                            *)

\* The set of discrepancies (empty iff the property holds for this case); each names the
\* instance position, class, property and what is wrong, so that a finding can be identified.
RoundTripIssues(A, B) ==
    LET N == Len(B.inst) IN
    IF Len(A.inst) # N THEN {<<0, "", "", "instance-count">>}
    ELSE
    (IF A.roots # B.roots THEN {<<0, "", "", "root-order">>} ELSE {})
    \cup UNION {
         LET ai == A.inst[k]
             b0 == B.inst[k]
             bi == [b0 EXCEPT !.props = EffectiveProps(b0.class, b0.props)]
             others == {j \in 1..N : j # k /\ B.inst[j].class = bi.class}
             shown(prop) == ShownName(bi.class, prop)
         IN
         (IF ai.class # bi.class THEN {<<k, bi.class, "", "class">>} ELSE {})
         \cup (IF ai.name # bi.name THEN {<<k, bi.class, "", "name">>} ELSE {})
         \cup (IF ai.parent # bi.parent \/ ai.kids # bi.kids THEN {<<k, bi.class, "", "hierarchy">>} ELSE {})
         \cup { <<k, bi.class, bi.props[x][1], "lost-or-changed">> :
                  x \in { x \in 1..Len(bi.props) :
                            LET prop == bi.props[x] IN
                            /\ IsStored(bi.class, prop)
                            /\ ~\E y \in 1..Len(ai.props) :
                                  /\ ai.props[y][1] = shown(prop)
                                  /\ \E x2 \in 1..Len(bi.props) :
                                        /\ IsStored(bi.class, bi.props[x2]) /\ shown(bi.props[x2]) = shown(prop)
                                        /\ ReadOK(ai.props[y][2], bi.props[x2][2], IsKnown(bi.class, bi.props[x2][1]),
                                                  IF IsKnown(bi.class, bi.props[x2][1])
                                                  THEN SerializedType(bi.class, bi.props[x2][1]) ELSE "") } }
         \cup { <<k, bi.class, ai.props[y][1], "unexplained">> :
                  y \in { y \in 1..Len(ai.props) :
                            ~( \/ \E x \in 1..Len(bi.props) :
                                    IsStored(bi.class, bi.props[x]) /\ shown(bi.props[x]) = ai.props[y][1]
                               \/ \E j \in others : \E x \in 1..Len(EffectiveProps(bi.class, B.inst[j].props)) :
                                    LET prop == EffectiveProps(bi.class, B.inst[j].props)[x] IN
                                    /\ IsStored(bi.class, prop) /\ ShownName(bi.class, prop) = ai.props[y][1]
                                    /\ (bi.class \in Classes /\ HasDefault(bi.class, ai.props[y][1])) =>
                                           ReadOK(ai.props[y][2], DefaultOf(bi.class, ai.props[y][1]), TRUE,
                                                  SerializedType(bi.class, ai.props[y][1])) ) } }
         : k \in 1..N }

RoundTrip(A, B) == RoundTripIssues(A, B) = {}

=============================================================================

--------------------------- MODULE MCBinaryColumns ---------------------------
(***************************************************************************)
(* The binary writer's class-column logic (rbx_binary serializer:          *)
(* collect_type_info + the per-instance value lookup of                    *)
(* serialize_properties) as a state machine, for one class and a chosen    *)
(* set of property spellings taken from the real database (Reflection).    *)
(*                                                                         *)
(* Nondeterminism is exactly where the code has it: the iteration order of *)
(* an instance's property map (UstrMap) and of a column's alias set        *)
(* (UstrSet).  Sibling order and the assignment of property subsets to     *)
(* instances are chosen in the initial state, so TLC covers every          *)
(* multiset, every order and every iteration order.                        *)
(*                                                                         *)
(* AliasRule: "any" (any alias the instance carries: hash order; the code  *)
(* before the fix) or "prefer_new_sorted" (aliases in name order, a value  *)
(* already in the new form before a legacy one; the code since the fix).   *)
(* MigrationRule: "sticky" (a column keeps its migration once any legacy   *)
(* spelling was seen; the code since the fix) or "last_writer_wins" (the   *)
(* code before it, kept so that TLC can exhibit the defect).               *)
(***************************************************************************)
EXTENDS Reflection, SequencesExt

CONSTANTS ClassName, Spellings, NumInst, MigrationRule, AliasRule

Insts == 1..NumInst

VARIABLES props,     \* [Insts -> SUBSET Spellings]   what each instance carries (fixed)
          order,     \* sibling order: a permutation of Insts (fixed)
          pos,       \* index into order of the instance being collected
          todo,      \* spellings of the current instance not yet iterated
          visited,   \* properties_visited
          cols,      \* canonical name -> [aliases, mig]
          phase,     \* "collect" | "values" | "done"
          pick,      \* [Insts -> [canonical name -> spelling or "default"]]  chosen value sources
          out        \* "ok" | "err"

vars == <<props, order, pos, todo, visited, cols, phase, pick, out>>

Known(p) == ClassName \in Classes /\ IsOk(Canonical(ClassName, p))
Legacy(p) == Known(p) /\ Migrates(ClassName, p)
\* canonical name of the column a spelling feeds
ColumnOf(p) == IF Legacy(p) THEN CanonicalName(ClassName, MigrationTarget(ClassName, p))
               ELSE IF Known(p) THEN CanonicalName(ClassName, p) ELSE p
Columns == {ColumnOf(p) : p \in Spellings}

Init ==
    /\ props \in [Insts -> SUBSET Spellings]
    /\ order \in {s \in [Insts -> Insts] : \A i, j \in Insts : i # j => s[i] # s[j]}
    /\ pos = 1
    /\ todo = props[order[1]]
    /\ visited = {}
    /\ cols = [c \in {} |-> 0]
    /\ phase = "collect"
    /\ pick = [k \in Insts |-> [c \in {} |-> ""]]
    /\ out = "ok"

\* one iteration of `for (prop_name, prop_value) in &instance.properties`
CollectProp ==
    /\ phase = "collect" /\ todo # {}
    /\ \E p \in todo :
         /\ todo' = todo \ {p}
         /\ IF p \in visited \/ (Known(p) /\ ~IsOk(Serialized(ClassName, p)) /\ ~Legacy(p))
            THEN UNCHANGED <<visited, cols>>                 \* already seen / does not serialize
            ELSE /\ visited' = visited \cup {p}
                 /\ LET c == ColumnOf(p)
                        created == IF c \in DOMAIN cols THEN cols
                                   ELSE [x \in DOMAIN cols \cup {c} |->
                                           IF x = c THEN [aliases |-> {}, mig |-> Legacy(p)] ELSE cols[x]]
                    IN cols' = IF p # c
                               THEN [created EXCEPT ![c] =
                                       [aliases |-> @.aliases \cup {p},
                                        mig |-> IF MigrationRule = "sticky" THEN @.mig \/ Legacy(p) ELSE Legacy(p)]]
                               ELSE created
    /\ UNCHANGED <<props, order, pos, phase, pick, out>>

NextInstance ==
    /\ phase = "collect" /\ todo = {}
    /\ IF pos < NumInst
       THEN pos' = pos + 1 /\ todo' = props[order[pos + 1]] /\ UNCHANGED phase
       ELSE phase' = "values" /\ UNCHANGED <<pos, todo>>
    /\ UNCHANGED <<props, order, visited, cols, pick, out>>

\* candidates of the value lookup: canonical name, then ANY known alias, then the default
\* strings have no order in TLA+; the name order of the code is stood in for by a fixed but
\* arbitrary choice, which is all the properties need (determinism, not a particular winner)
Candidates(k, c) ==
    IF c \in props[k] THEN {c}
    ELSE LET al    == cols[c].aliases \cap props[k]
             newer == {a \in al : ~Legacy(a)}
         IN IF al = {} THEN {"default"}
            ELSE IF AliasRule = "any" THEN al
            ELSE IF newer # {} THEN {CHOOSE a \in newer : TRUE} ELSE {CHOOSE a \in al : TRUE}

ChooseValues ==
    /\ phase = "values"
    /\ \E choice \in [Insts -> [DOMAIN cols -> Spellings \cup {"default"}]] :
         /\ \A k \in Insts : \A c \in DOMAIN cols : choice[k][c] \in Candidates(k, c)
         /\ pick' = choice
         \* a legacy-typed value that reaches a column without its migration is a type mismatch
         /\ out' = IF \E k \in Insts : \E c \in DOMAIN cols :
                         choice[k][c] # "default" /\ Legacy(choice[k][c]) /\ ~cols[c].mig
                   THEN "err" ELSE "ok"
    /\ phase' = "done"
    /\ UNCHANGED <<props, order, pos, todo, visited, cols>>

Next == CollectProp \/ NextInstance \/ ChooseValues
Spec == Init /\ [][Next]_vars

-----------------------------------------------------------------------------
(* C08 *)

\* serialization succeeds (every instance serializes on its own in this model), whatever the orders
AlwaysSucceeds == phase = "done" => out = "ok"

\* each instance shows its own value for a property it carries, the default otherwise
OwnValues == phase = "done" =>
    \A k \in Insts : \A c \in DOMAIN cols :
        IF \E p \in props[k] : ColumnOf(p) = c
        THEN pick[k][c] \in props[k] /\ ColumnOf(pick[k][c]) = c
        ELSE pick[k][c] = "default"

\* one column per logical property that any instance carries (serializing ones)
ColumnsExact == phase = "done" =>
    DOMAIN cols = {ColumnOf(p) : p \in {p \in UNION {props[k] : k \in Insts} :
                                           ~Known(p) \/ IsOk(Serialized(ClassName, p)) \/ Legacy(p)}}

\* C15 on this path: a legacy value never wins over an explicitly carried new value
ExplicitWins == phase = "done" =>
    \A k \in Insts : \A c \in DOMAIN cols :
        (\E p \in props[k] : ColumnOf(p) = c /\ ~Legacy(p)) => ~Legacy(pick[k][c])

\* C07 on this model: no iteration order reaches the output - when the values are chosen the
\* column table is a function of the population alone and every lookup has exactly one candidate
ExpectedCols ==
    LET carried == {p \in UNION {props[k] : k \in Insts} : ~Known(p) \/ IsOk(Serialized(ClassName, p)) \/ Legacy(p)}
        names == {ColumnOf(p) : p \in carried}
    IN [c \in names |-> [aliases |-> {p \in carried : ColumnOf(p) = c /\ p # c},
                          mig |-> \E p \in carried : ColumnOf(p) = c /\ p # c /\ Legacy(p)]]
OrderFree == phase = "values" =>
    /\ DOMAIN cols = DOMAIN ExpectedCols
    /\ \A c \in DOMAIN cols : cols[c].aliases = ExpectedCols[c].aliases
    /\ \A k \in Insts : \A c \in DOMAIN cols : Cardinality(Candidates(k, c)) = 1

\* binding B: every population (initial state) is printed once and replayed on rbx_binary
PrintPop == (pos = 1 /\ visited = {} /\ phase = "collect" /\ todo = props[order[1]] /\ DOMAIN cols = {}) =>
               PrintT(<<"REPLAY", ToJson([class |-> ClassName, ids |-> order,
                                          insts |-> [i \in Insts |-> props[order[i]]]])>>)
=============================================================================

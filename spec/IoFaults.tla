------------------------------ MODULE IoFaults ------------------------------
(***************************************************************************)
(* The environment around the decoders (C13): a byte source whose read()   *)
(* may return any non-empty prefix of what remains (short reads), or fail  *)
(* with ErrorKind::Interrupted without consuming anything, and a consumer  *)
(* that must assemble exactly the source's bytes (std's read_exact /       *)
(* read_to_end contract, which all decoders sit on).                       *)
(*                                                                         *)
(* TLC checks on this reference that the assembled bytes - hence the       *)
(* decoding result - do not depend on the delivery schedule, and that a    *)
(* source shorter than the consumer needs ends in an error.  Every         *)
(* maximal schedule is printed and replayed (cycled over real files) on    *)
(* the real decoders by the harness.                                       *)
(***************************************************************************)
EXTENDS Integers, Sequences, FiniteSets, TLC, Json

CONSTANTS Len0,        \* bytes the source holds
          Need,        \* bytes the consumer needs (Need > Len0 models truncation)
          MaxInterrupts

VARIABLES pos,        \* bytes handed out so far
          got,        \* what the consumer assembled
          calls,      \* number of read() calls made
          sizes,      \* history: sizes of the successful reads
          ints,       \* history: indices (0-based) of the read() calls that were interrupted
          state       \* "reading" | "ok" | "err"

vars == <<pos, got, calls, sizes, ints, state>>
Data == [i \in 1..Len0 |-> i]           \* distinct bytes, so any reordering or loss is visible

Init == pos = 0 /\ got = <<>> /\ calls = 0 /\ sizes = <<>> /\ ints = <<>> /\ state = "reading"

\* read() returns n bytes, 1 <= n <= what remains (and what the consumer still wants)
Deliver(n) ==
    /\ state = "reading" /\ Len(got) < Need
    /\ n \in 1..(Len0 - pos) /\ n <= Need - Len(got)
    /\ got' = got \o SubSeq(Data, pos + 1, pos + n)
    /\ pos' = pos + n
    /\ calls' = calls + 1
    /\ sizes' = Append(sizes, n)
    /\ UNCHANGED <<ints, state>>

\* read() fails with Interrupted: nothing consumed, the caller must retry
Interrupt ==
    /\ state = "reading" /\ Len(got) < Need
    /\ Len(ints) < MaxInterrupts
    /\ ints' = Append(ints, calls)
    /\ calls' = calls + 1
    /\ UNCHANGED <<pos, got, sizes, state>>

\* read() returns 0: end of input
Eof ==
    /\ state = "reading" /\ pos = Len0 /\ Len(got) < Need
    /\ state' = "err"                          \* UnexpectedEof
    /\ calls' = calls + 1
    /\ UNCHANGED <<pos, got, sizes, ints>>

Finish ==
    /\ state = "reading" /\ Len(got) = Need
    /\ state' = "ok"
    /\ UNCHANGED <<pos, got, calls, sizes, ints>>

Next == (\E n \in 1..Len0 : Deliver(n)) \/ Interrupt \/ Eof \/ Finish
Spec == Init /\ [][Next]_vars

\* the consumer never sees reordered, duplicated or invented bytes
PrefixOnly == got = SubSeq(Data, 1, Len(got))
\* schedule independence: whenever the consumer completes it holds exactly the first Need bytes
ScheduleFree == state = "ok" => got = SubSeq(Data, 1, Need)
\* truncation is an error, never a success
TruncationDetected == (Need > Len0) => state # "ok"
Complete == (Need <= Len0 /\ state = "err") => FALSE

PrintSchedule == state \in {"ok", "err"} => PrintT(<<"REPLAY", ToJson([sizes |-> sizes, interrupts |-> ints, result |-> state])>>)
=============================================================================

--------------------------- MODULE XmlForeignTrace ---------------------------
(***************************************************************************)
(* C05, reader direction: documents written by an independent generator    *)
(* from docs/xml.md (tools/foreign_xml.py).  (i) The generator is held to  *)
(* the specification: its document must satisfy DocInvariants and mean the *)
(* logical forest.  (ii) The forest rbx_xml read must be that forest.      *)
(***************************************************************************)
EXTENDS XmlFormat

Rec == ndJsonDeserialize(IOEnv.TRACE)
VARIABLE l
Ev == Rec[l]

Report(name, issues) == PrintT(<<"CASEFAIL", ToJson([line |-> l, ep |-> Ev.ep, clause |-> name, issues |-> issues])>>)
Clause(name, holds) == IF holds THEN TRUE ELSE Report(name, {})

CheckCase ==
    /\ Clause("generator-wellformed", Ev.wellformed = 1)
    /\ Ev.wellformed = 1 =>
          /\ IF DocInvariants(Ev.doc) THEN TRUE ELSE Report("generator-docinv", BadElements(Ev.doc))
          /\ DocInvariants(Ev.doc) =>
                LET iss == DocIssues(Ev.doc, Ev.logical, "NoReflection") IN
                IF iss = {} THEN TRUE ELSE Report("generator-meaning", iss)
    /\ Clause("read", Ev.read = "ok")
    /\ Ev.read = "ok" =>
          LET iss == XmlRoundTripIssues(Ev.after, Ev.logical, "NoReflection", "IgnoreUnknown") IN
          IF iss = {} THEN TRUE ELSE Report("decoded", iss)

Step == l <= Len(Rec) /\ CheckCase \in BOOLEAN /\ l' = l + 1
Finish == l = Len(Rec) + 1 /\ PrintT(<<"TRACE_DONE", Len(Rec)>>) /\ l' = l + 1
TraceSpec == l = 1 /\ [][Step \/ Finish]_l
=============================================================================

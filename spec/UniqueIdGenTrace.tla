-------------------------- MODULE UniqueIdGenTrace --------------------------
(***************************************************************************)
(* Trace validation for UniqueId::now() under real concurrency.  Atomic    *)
(* read-modify-write operations on one location are totally ordered and a  *)
(* fetch_add returns its position in that order, so the harness lists the  *)
(* calls of all threads sorted by returned index; the log is accepted iff  *)
(* that listing is a behaviour of UniqueIdGen that respects every thread's *)
(* program order (k = the call's position in its own thread).              *)
(***************************************************************************)
EXTENDS UniqueIdGen, Json, IOUtils, TLC

Rec == ndJsonDeserialize(IOEnv.TRACE)
VARIABLE l
tvars == <<counter, got, tmp, l>>
Ev == Rec[l]

Explain ==
    CASE Ev.op = "reset" -> counter' = 0 /\ got' = [t \in Threads |-> <<>>] /\ tmp' = [t \in Threads |-> -1]
      [] Ev.op = "fetch" -> /\ FetchAdd(Ev.t)
                            /\ Ev.ret = counter
                            /\ Ev.k = Len(got[Ev.t]) + 1
      \* the index makes ids of one process distinct from each other; what makes a regenerated id distinct from ids
      \* that came from elsewhere (files, other processes) is the random part, drawn anew by every call: among the
      \* tens of thousands of calls of a run no two random parts are equal (63 bits each)
      [] Ev.op = "randoms" -> Ev.distinct = Ev.calls /\ UNCHANGED vars
      [] OTHER -> FALSE

Match == l <= Len(Rec) /\ l' = l + 1 /\ Explain
Skip == /\ l <= Len(Rec) /\ ~ENABLED Match
        /\ PrintT(<<"MISMATCH", l, Ev.ep, Ev.op>>)
        /\ l' = Len(Rec) + 1 /\ UNCHANGED vars
Finish == l = Len(Rec) + 1 /\ PrintT(<<"TRACE_DONE", Len(Rec)>>) /\ l' = l + 1 /\ UNCHANGED vars
TraceInit == Init /\ l = 1
TraceSpec == TraceInit /\ [][Match \/ Skip \/ Finish]_tvars
=============================================================================

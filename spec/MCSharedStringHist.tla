------------------------- MODULE MCSharedStringHist -------------------------
(***************************************************************************)
(* Binding B for SharedString: every maximal interleaving of the model     *)
(* (each thread: up to MaxOps new/clone calls, any drops) is printed as a  *)
(* schedule; the harness executes it with real threads in lock-step.       *)
(***************************************************************************)
EXTENDS SharedString, Json

VARIABLE hist
hvars == <<table, strong, bcontent, slot, made, pending, nextBuf, ops, hist>>

Log(e) == hist' = Append(hist, e)

HNext ==
    \/ \E t \in Threads, c \in Contents :
          /\ HasFree(t) /\ New(t, c, FirstFree(t))
          /\ Log([op |-> "new", t |-> t, c |-> c, i |-> FirstFree(t)])
    \/ \E t \in Threads, i \in Slots :
          /\ HasFree(t) /\ Clone(t, i, FirstFree(t))
          /\ Log([op |-> "clone", t |-> t, i |-> i, j |-> FirstFree(t)])
    \/ \E t \in Threads, i \in Slots :
          DropRelease(t, i) /\ Log([op |-> "release", t |-> t, i |-> i])
    \/ \E t \in Threads :
          DropCleanup(t) /\ Log([op |-> "cleanup", t |-> t])

HInit == Init /\ hist = <<>>
HSpec == HInit /\ [][HNext]_hvars

Terminal == Quiescent /\ \A t \in Threads : ops[t] = MaxOps
PrintHist == Terminal => PrintT(<<"REPLAY", ToJson(hist)>>)
=============================================================================

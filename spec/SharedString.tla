---------------------------- MODULE SharedString ----------------------------
(***************************************************************************)
(* rbx_types::SharedString (rbx_types/src/shared_string.rs): a process-    *)
(* global intern table  hash(content) -> Weak<buffer>  behind a mutex,     *)
(* handles holding an Arc<buffer>.                                         *)
(*                                                                         *)
(* One action per critical section, plus the one lock-free window of the   *)
(* code: in Drop, between Arc::into_inner (the release of the last strong  *)
(* reference, no lock held) and the table clean-up (under the lock).       *)
(*   New(t,c,i)        whole body of SharedString::new under the mutex      *)
(*   Clone(t,i,j)      Arc clone                                           *)
(*   DropRelease(t,i)  strong count decrement; last one => t is `pending`  *)
(*   DropCleanup(t)    the table clean-up of a pending thread              *)
(* CleanupRule selects the clean-up rule:                                  *)
(*   "unconditional"  cache.remove(&hash)            (code before the fix) *)
(*   "only_if_dead"   remove only an entry whose buffer is dead   (fixed)  *)
(***************************************************************************)
EXTENDS Integers, Sequences, FiniteSets, TLC

CONSTANTS NumThreads, NumContents, NumSlots, MaxBuf, MaxOps, CleanupRule

Threads  == 1..NumThreads
Contents == 1..NumContents
Slots    == 1..NumSlots
Bufs     == 1..MaxBuf
NoBuf    == 0

VARIABLES table,     \* [Contents -> Bufs \cup {NoBuf}]   entry for hash(c): Weak pointer target
          strong,    \* [Bufs -> Nat]                     Arc strong count (0: buffer freed or unused)
          bcontent,  \* [Bufs -> Contents \cup {0}]       bytes of the buffer
          slot,      \* [Threads -> [Slots -> Bufs \cup {NoBuf}]]   handles held by each thread
          made,      \* [Threads -> [Slots -> Contents \cup {0}]]   ghost: content the handle was created from
          pending,   \* [Threads -> Bufs \cup {NoBuf}]    t is inside the release->clean-up window for that buffer
          nextBuf,   \* next fresh buffer identity
          ops        \* [Threads -> Nat]                  new/clone calls made (model bound)

vars == <<table, strong, bcontent, slot, made, pending, nextBuf, ops>>

LiveBufs == {b \in Bufs : strong[b] > 0}

New(t, c, i) ==
    /\ pending[t] = NoBuf
    /\ slot[t][i] = NoBuf
    /\ ops[t] < MaxOps
    /\ ops' = [ops EXCEPT ![t] = @ + 1]
    /\ made' = [made EXCEPT ![t][i] = c]
    /\ IF table[c] # NoBuf /\ strong[table[c]] > 0
       THEN \* occupied, upgrade succeeded: share the existing buffer
            /\ strong' = [strong EXCEPT ![table[c]] = @ + 1]
            /\ slot'   = [slot EXCEPT ![t][i] = table[c]]
            /\ UNCHANGED <<table, bcontent, nextBuf>>
       ELSE \* vacant, or occupied by a dead Weak: allocate and (re)populate the entry
            /\ nextBuf <= MaxBuf
            /\ strong'   = [strong EXCEPT ![nextBuf] = 1]
            /\ bcontent' = [bcontent EXCEPT ![nextBuf] = c]
            /\ table'    = [table EXCEPT ![c] = nextBuf]
            /\ slot'     = [slot EXCEPT ![t][i] = nextBuf]
            /\ nextBuf'  = nextBuf + 1
    /\ UNCHANGED pending

Clone(t, i, j) ==
    /\ pending[t] = NoBuf
    /\ slot[t][i] # NoBuf /\ slot[t][j] = NoBuf
    /\ ops[t] < MaxOps
    /\ ops' = [ops EXCEPT ![t] = @ + 1]
    /\ strong' = [strong EXCEPT ![slot[t][i]] = @ + 1]
    /\ slot'   = [slot EXCEPT ![t][j] = slot[t][i]]
    /\ made'   = [made EXCEPT ![t][j] = made[t][i]]
    /\ UNCHANGED <<table, bcontent, pending, nextBuf>>

DropRelease(t, i) ==
    LET b == slot[t][i] IN
    /\ pending[t] = NoBuf
    /\ b # NoBuf
    /\ strong'  = [strong EXCEPT ![b] = @ - 1]
    /\ slot'    = [slot EXCEPT ![t][i] = NoBuf]
    /\ made'    = [made EXCEPT ![t][i] = 0]
    /\ pending' = [pending EXCEPT ![t] = IF strong[b] = 1 THEN b ELSE NoBuf]
    /\ UNCHANGED <<table, bcontent, nextBuf, ops>>

DropCleanup(t) ==
    LET c == bcontent[pending[t]] IN
    /\ pending[t] # NoBuf
    /\ table' = [table EXCEPT ![c] =
                    IF CleanupRule = "only_if_dead" /\ @ # NoBuf /\ strong[@] > 0 THEN @ ELSE NoBuf]
    /\ pending' = [pending EXCEPT ![t] = NoBuf]
    /\ UNCHANGED <<strong, bcontent, slot, made, nextBuf, ops>>

Init ==
    /\ table    = [c \in Contents |-> NoBuf]
    /\ strong   = [b \in Bufs |-> 0]
    /\ bcontent = [b \in Bufs |-> 0]
    /\ slot     = [t \in Threads |-> [i \in Slots |-> NoBuf]]
    /\ made     = [t \in Threads |-> [i \in Slots |-> 0]]
    /\ pending  = [t \in Threads |-> NoBuf]
    /\ nextBuf  = 1
    /\ ops      = [t \in Threads |-> 0]

FirstFree(t) == CHOOSE i \in Slots : slot[t][i] = NoBuf /\ \A j \in Slots : slot[t][j] = NoBuf => i <= j
HasFree(t)   == \E i \in Slots : slot[t][i] = NoBuf

Next ==
    \/ \E t \in Threads, c \in Contents : HasFree(t) /\ New(t, c, FirstFree(t))
    \/ \E t \in Threads, i \in Slots : HasFree(t) /\ Clone(t, i, FirstFree(t))
    \/ \E t \in Threads, i \in Slots : DropRelease(t, i)
    \/ \E t \in Threads : DropCleanup(t)

Quiescent == /\ \A t \in Threads : pending[t] = NoBuf /\ \A i \in Slots : slot[t][i] = NoBuf
Done == Quiescent /\ \A t \in Threads : ops[t] = MaxOps /\ UNCHANGED vars

Spec == Init /\ [][Next \/ Done]_vars
FairSpec == Spec /\ \A t \in Threads : WF_vars(DropCleanup(t))

-----------------------------------------------------------------------------
TypeOK ==
    /\ table \in [Contents -> Bufs \cup {NoBuf}]
    /\ \A b \in Bufs : strong[b] \in 0..(NumThreads * NumSlots)
    /\ nextBuf \in 1..(MaxBuf + 1)

\* the reference count is the number of handles
CountExact == \A b \in Bufs : strong[b] = Cardinality({<<t, i>> \in Threads \X Slots : slot[t][i] = b})

\* each handle always exposes exactly the bytes it was created from
DataIntact == \A t \in Threads, i \in Slots : slot[t][i] # NoBuf =>
                 /\ strong[slot[t][i]] > 0
                 /\ bcontent[slot[t][i]] = made[t][i]
BufferImmutable == [][\A b \in Bufs : bcontent[b] # 0 => bcontent'[b] = bcontent[b]]_vars

\* deduplication: all live handles with equal contents share a single buffer
Dedup == \A a, b \in LiveBufs : bcontent[a] = bcontent[b] => a = b

\* once every handle has been dropped (and no clean-up is outstanding) the table is empty
EmptyAtQuiescence == Quiescent => \A c \in Contents : table[c] = NoBuf

\* with nobody inside the window, the table holds exactly the live contents
QuiescentExact == (\A t \in Threads : pending[t] = NoBuf) =>
                     \A c \in Contents : (table[c] # NoBuf) <=> (\E b \in LiveBufs : bcontent[b] = c)

\* a live buffer is always reachable from the table unless somebody is in the window
EntryPointsToContent == \A c \in Contents : table[c] # NoBuf => bcontent[table[c]] = c

\* no deadlock: a thread inside the window can always finish; checked by TLC's deadlock
\* detection together with Done, and as liveness under FairSpec:
WindowCloses == \A t \in Threads : (pending[t] # NoBuf) ~> (pending[t] = NoBuf)

=============================================================================

------------------------------ MODULE XmlFormat ------------------------------
(***************************************************************************)
(* docs/xml.md as a specification: what a document must look like          *)
(* (DocInvariants), which forest it describes (the value decoder XmlValue  *)
(* per type element, written from the document), which document the       *)
(* writer must produce for a forest (DocIssues, C05) and which forest must *)
(* come back from the reader (XmlRoundTripIssues, C02).                    *)
(*                                                                         *)
(* Documents reach TLC as token trees produced by an independent XML       *)
(* parser (tools/xmltok.py, expat).  Each text node carries type-agnostic  *)
(* lexical views (raw bytes, number -> f32/f64/int patterns by exact       *)
(* rational arithmetic, base64, hex, number lists); which view a type      *)
(* element uses is decided here.                                           *)
(***************************************************************************)
EXTENDS BinaryFormat          \* Reflection, value normalisations, migration rules

-----------------------------------------------------------------------------
(* token tree helpers *)

HasAttr(n, a) == \E i \in 1..Len(n.attrs) : n.attrs[i][1] = a
Attr(n, a) == n.attrs[CHOOSE i \in 1..Len(n.attrs) : n.attrs[i][1] = a][2]
AttrBytes(n, a) == n.attrs[CHOOSE i \in 1..Len(n.attrs) : n.attrs[i][1] = a][3]
KidIdx(n, tag) == {i \in 1..Len(n.kids) : n.kids[i].tag = tag}
HasKid(n, tag) == KidIdx(n, tag) # {}
Kid(n, tag) == n.kids[CHOOSE i \in KidIdx(n, tag) : \A j \in KidIdx(n, tag) : i <= j]
KidTags(n) == [i \in 1..Len(n.kids) |-> n.kids[i].tag]
Txt(n) == n.text

Root(doc) == doc.kids[1]

RECURSIVE ItemsPre(_)
\* Item elements in document order (pre-order), as a sequence of nodes
ItemsPre(kids) ==
    IF kids = <<>> THEN <<>>
    ELSE IF Head(kids).tag = "Item"
         THEN <<Head(kids)>> \o ItemsPre(Head(kids).kids) \o ItemsPre(Tail(kids))
         ELSE ItemsPre(Tail(kids))

-----------------------------------------------------------------------------
(* lexical views -> scalars *)

IsF32(t) == Len(t.f32) = 4
IsF64(t) == Len(t.f64) = 8
IsInt(t) == Len(t.i64) = 8
\* integer view narrowed to 32 bits (signed) / 32 bits unsigned / 16 bits signed
FitsI32(t) == IsInt(t) /\ t.i64_big = 0 /\
              \/ (t.i64_neg = 0 /\ SubSeq(t.i64, 1, 4) = <<0, 0, 0, 0>> /\ t.i64[5] < 128)
              \/ (t.i64_neg = 1 /\ SubSeq(t.i64, 1, 4) = <<255, 255, 255, 255>> /\ t.i64[5] >= 128)
FitsU32(t) == IsInt(t) /\ t.i64_neg = 0 /\ t.i64_big = 0 /\ SubSeq(t.i64, 1, 4) = <<0, 0, 0, 0>>
I32Of(t) == SubSeq(t.i64, 5, 8)
SmallInt(t) == \* value of an integer text known to be small (|n| < 2^23), as a TLA+ integer
    IF t.i64_neg = 0 THEN t.i64[6] * 65536 + t.i64[7] * 256 + t.i64[8]
    ELSE -((255 - t.i64[6]) * 65536 + (255 - t.i64[7]) * 256 + (255 - t.i64[8]) + 1)
IsSmall(t) == IsInt(t) /\ ((t.i64_neg = 0 /\ SubSeq(t.i64, 1, 5) = <<0, 0, 0, 0, 0>> /\ t.i64[6] < 128)
                           \/ (t.i64_neg = 1 /\ SubSeq(t.i64, 1, 5) = <<255, 255, 255, 255, 255>> /\ t.i64[6] >= 128))

BoolOf(t) == IF t.str \in {"true", "True", "TRUE"} THEN 1 ELSE IF t.str \in {"false", "False", "FALSE"} THEN 0 ELSE -1

F32Kid(n, tag) == IF HasKid(n, tag) /\ IsF32(Txt(Kid(n, tag))) THEN Txt(Kid(n, tag)).f32 ELSE <<>>
Bad == [t |-> "?", v |-> <<>>]
AllF32(s) == \A i \in 1..Len(s) : Len(s[i]) = 4

-----------------------------------------------------------------------------
(* The value decoder, one case per Type Element of docs/xml.md.              *)
(* Ref values are left as referent strings ([t |-> "RefStr"]) and            *)
(* SharedString values as dictionary keys ([t |-> "SharedKey"]).             *)

Vec(n, tags) == [i \in 1..Len(tags) |-> F32Kid(n, tags[i])]
CFrameTags == <<"X", "Y", "Z", "R00", "R01", "R02", "R10", "R11", "R12", "R20", "R21", "R22">>

\* url/uri/null child of Content-like elements
UrlLike(n) ==
    IF Len(n.kids) # 1 THEN Bad
    ELSE LET k == n.kids[1] IN
         IF k.tag = "null" THEN [t |-> "Url", v |-> <<0>>]
         ELSE IF k.tag \in {"url", "uri"} THEN [t |-> "Url", v |-> <<1, Txt(k).raw>>]
         ELSE IF k.tag = "Ref" THEN [t |-> "Url", v |-> <<2, Txt(k).str>>]
         ELSE IF k.tag \in {"binary", "hash"} THEN [t |-> "Url", v |-> <<0>>]
         ELSE Bad

XmlValue(n) ==
    LET tag == n.tag  t == Txt(n) IN
    CASE tag \in {"string", "ProtectedString"} -> [t |-> "String", v |-> t.raw]
      [] tag = "BinaryString" -> IF t.b64ok = 1 THEN [t |-> "BinaryString", v |-> t.b64] ELSE Bad
      [] tag = "bool" -> IF BoolOf(t) >= 0 THEN [t |-> "Bool", v |-> BoolOf(t)] ELSE Bad
      [] tag = "int" -> IF FitsI32(t) THEN [t |-> "Int32", v |-> I32Of(t)] ELSE Bad
      [] tag = "int64" -> IF IsInt(t) /\ t.i64_big = 0 THEN [t |-> "Int64", v |-> t.i64] ELSE Bad
      [] tag = "float" -> IF IsF32(t) THEN [t |-> "Float32", v |-> t.f32] ELSE Bad
      [] tag = "double" -> IF IsF64(t) THEN [t |-> "Float64", v |-> t.f64] ELSE Bad
      [] tag = "token" -> IF FitsU32(t) THEN [t |-> "Enum", v |-> I32Of(t)] ELSE Bad
      [] tag = "Ref" -> [t |-> "RefStr", v |-> t.str]
      [] tag = "SharedString" -> [t |-> "SharedKey", v |-> t.str]
      [] tag = "Vector3" -> LET v == Vec(n, <<"X", "Y", "Z">>) IN IF AllF32(v) /\ Len(n.kids) = 3 THEN [t |-> "Vector3", v |-> v] ELSE Bad
      [] tag = "Vector2" -> LET v == Vec(n, <<"X", "Y">>) IN IF AllF32(v) /\ Len(n.kids) = 2 THEN [t |-> "Vector2", v |-> v] ELSE Bad
      [] tag \in {"Vector3int16", "Vector2int16"} ->
            LET names == IF tag = "Vector3int16" THEN <<"X", "Y", "Z">> ELSE <<"X", "Y">> IN
            IF \A i \in 1..Len(names) : HasKid(n, names[i]) /\ IsSmall(Txt(Kid(n, names[i]))) /\ SmallInt(Txt(Kid(n, names[i]))) \in -32768..32767
            THEN [t |-> tag, v |-> [i \in 1..Len(names) |-> SmallInt(Txt(Kid(n, names[i])))]] ELSE Bad
      [] tag = "CoordinateFrame" -> LET v == Vec(n, CFrameTags) IN IF AllF32(v) /\ Len(n.kids) = 12 THEN [t |-> "CFrame", v |-> v] ELSE Bad
      [] tag = "OptionalCoordinateFrame" ->
            IF Len(n.kids) = 0 THEN [t |-> "OptionalCFrame", v |-> <<>>]
            ELSE IF Len(n.kids) = 1 /\ n.kids[1].tag = "CFrame" /\ AllF32(Vec(n.kids[1], CFrameTags)) /\ Len(n.kids[1].kids) = 12
                 THEN [t |-> "OptionalCFrame", v |-> Vec(n.kids[1], CFrameTags)] ELSE Bad
      [] tag = "Color3" -> LET v == Vec(n, <<"R", "G", "B">>) IN IF AllF32(v) /\ Len(n.kids) = 3 THEN [t |-> "Color3", v |-> v] ELSE Bad
      [] tag = "Color3uint8" -> IF FitsU32(t) THEN [t |-> "Color3uint8", v |-> SubSeq(t.i64, 6, 8)] ELSE Bad
      [] tag = "UDim" -> IF Len(F32Kid(n, "S")) = 4 /\ HasKid(n, "O") /\ FitsI32(Txt(Kid(n, "O"))) /\ Len(n.kids) = 2
                         THEN [t |-> "UDim", v |-> <<F32Kid(n, "S"), I32Of(Txt(Kid(n, "O")))>>] ELSE Bad
      [] tag = "UDim2" -> IF Len(F32Kid(n, "XS")) = 4 /\ Len(F32Kid(n, "YS")) = 4 /\ HasKid(n, "XO") /\ HasKid(n, "YO")
                             /\ FitsI32(Txt(Kid(n, "XO"))) /\ FitsI32(Txt(Kid(n, "YO"))) /\ Len(n.kids) = 4
                          THEN [t |-> "UDim2", v |-> <<F32Kid(n, "XS"), I32Of(Txt(Kid(n, "XO"))), F32Kid(n, "YS"), I32Of(Txt(Kid(n, "YO")))>>]
                          ELSE Bad
      [] tag = "Ray" -> IF HasKid(n, "origin") /\ HasKid(n, "direction") /\ Len(n.kids) = 2
                           /\ AllF32(Vec(Kid(n, "origin"), <<"X", "Y", "Z">>)) /\ AllF32(Vec(Kid(n, "direction"), <<"X", "Y", "Z">>))
                        THEN [t |-> "Ray", v |-> Vec(Kid(n, "origin"), <<"X", "Y", "Z">>) \o Vec(Kid(n, "direction"), <<"X", "Y", "Z">>)]
                        ELSE Bad
      [] tag = "Rect2D" -> IF HasKid(n, "min") /\ HasKid(n, "max") /\ Len(n.kids) = 2
                              /\ AllF32(Vec(Kid(n, "min"), <<"X", "Y">>)) /\ AllF32(Vec(Kid(n, "max"), <<"X", "Y">>))
                           THEN [t |-> "Rect", v |-> Vec(Kid(n, "min"), <<"X", "Y">>) \o Vec(Kid(n, "max"), <<"X", "Y">>)] ELSE Bad
      [] tag = "NumberRange" -> IF t.f32s_ok = 1 /\ Len(t.f32s) = 2 THEN [t |-> "NumberRange", v |-> t.f32s] ELSE Bad
      [] tag = "NumberSequence" ->
            IF t.f32s_ok = 1 /\ Len(t.f32s) % 3 = 0
            THEN [t |-> "NumberSequence", v |-> [k \in 1..(Len(t.f32s) \div 3) |-> SubSeq(t.f32s, 3 * k - 2, 3 * k)]] ELSE Bad
      [] tag = "ColorSequence" ->
            IF t.f32s_ok = 1 /\ Len(t.f32s) % 5 = 0
            THEN [t |-> "ColorSequence", v |-> [k \in 1..(Len(t.f32s) \div 5) |-> SubSeq(t.f32s, 5 * k - 4, 5 * k - 1)]] ELSE Bad
      [] tag = "PhysicalProperties" ->
            IF ~HasKid(n, "CustomPhysics") THEN Bad
            ELSE IF BoolOf(Txt(Kid(n, "CustomPhysics"))) = 0 /\ Len(n.kids) = 1 THEN [t |-> "PhysicalProperties", v |-> <<>>]
            ELSE LET v == Vec(n, <<"Density", "Friction", "Elasticity", "FrictionWeight", "ElasticityWeight">>) IN
                 IF BoolOf(Txt(Kid(n, "CustomPhysics"))) = 1 /\ AllF32(v) /\ Len(n.kids) = 6 THEN [t |-> "PhysicalProperties", v |-> v] ELSE Bad
      [] tag = "Faces" -> IF HasKid(n, "faces") /\ IsSmall(Txt(Kid(n, "faces"))) /\ SmallInt(Txt(Kid(n, "faces"))) \in 0..63
                          THEN [t |-> "Faces", v |-> SmallInt(Txt(Kid(n, "faces")))] ELSE Bad
      [] tag = "Axes" -> IF HasKid(n, "axes") /\ IsSmall(Txt(Kid(n, "axes"))) /\ SmallInt(Txt(Kid(n, "axes"))) \in 0..7
                         THEN [t |-> "Axes", v |-> SmallInt(Txt(Kid(n, "axes")))] ELSE Bad
      [] tag = "Content" -> LET u == UrlLike(n) IN IF u.t = "?" THEN Bad ELSE [t |-> "Content", v |-> u.v]
      [] tag = "ContentId" -> LET u == UrlLike(n) IN
                              IF u.t = "?" \/ u.v[1] = 2 THEN Bad
                              ELSE [t |-> "ContentId", v |-> IF u.v[1] = 0 THEN <<>> ELSE u.v[2]]
      [] tag = "Font" ->
            IF HasKid(n, "Family") /\ HasKid(n, "Weight") /\ HasKid(n, "Style") /\ UrlLike(Kid(n, "Family")).t # "?"
               /\ IsSmall(Txt(Kid(n, "Weight"))) /\ Txt(Kid(n, "Style")).str \in {"Normal", "Italic"}
               /\ (HasKid(n, "CachedFaceId") => UrlLike(Kid(n, "CachedFaceId")).t # "?")
            THEN LET fam == UrlLike(Kid(n, "Family")).v
                     cf  == IF HasKid(n, "CachedFaceId") THEN UrlLike(Kid(n, "CachedFaceId")).v ELSE <<0>>
                 IN [t |-> "Font", v |-> <<IF fam[1] = 1 THEN fam[2] ELSE <<>>, SmallInt(Txt(Kid(n, "Weight"))),
                                            IF Txt(Kid(n, "Style")).str = "Italic" THEN 1 ELSE 0,
                                            IF cf[1] = 1 THEN 1 ELSE 0, IF cf[1] = 1 THEN cf[2] ELSE <<>>>>]
            ELSE Bad
      [] tag = "UniqueId" -> IF t.hexok = 1 /\ Len(t.hex) = 16
                             THEN [t |-> "UniqueId", v |-> <<SubSeq(t.hex, 13, 16), SubSeq(t.hex, 9, 12), SubSeq(t.hex, 1, 8)>>] ELSE Bad
      [] tag = "SecurityCapabilities" -> IF IsInt(t) /\ t.i64_neg = 0 THEN [t |-> "SecurityCapabilities", v |-> t.i64] ELSE Bad
      [] OTHER -> [t |-> "?unknown-tag", v |-> <<>>]

-----------------------------------------------------------------------------
(* Structure of a document (C05)                                             *)

PropsNode(item) == Kid(item, "Properties")
SharedDict(doc) == IF HasKid(Root(doc), "SharedStrings") THEN Kid(Root(doc), "SharedStrings").kids ELSE <<>>
DictKeys(doc) == [i \in 1..Len(SharedDict(doc)) |-> Attr(SharedDict(doc)[i], "md5")]

RECURSIVE AllPropNodes(_)
AllPropNodes(items) == IF items = <<>> THEN <<>> ELSE PropsNode(Head(items)).kids \o AllPropNodes(Tail(items))

DocInvariants(doc) ==
    LET root  == Root(doc)
        items == ItemsPre(root.kids)
    IN
    /\ Len(doc.kids) = 1 /\ root.tag = "roblox"                                \* one roblox element ...
    /\ HasAttr(root, "version") /\ Attr(root, "version") = "4"                 \* ... with version 4
    /\ \A i \in 1..Len(root.kids) : root.kids[i].tag \in {"Meta", "External", "Item", "SharedStrings"}
    /\ Cardinality(KidIdx(root, "SharedStrings")) <= 1
    /\ \A i \in 1..Len(items) :
          /\ HasAttr(items[i], "class") /\ HasAttr(items[i], "referent")
          /\ Attr(items[i], "referent") # "null"                               \* never 'null'
          /\ Cardinality(KidIdx(items[i], "Properties")) = 1                   \* exactly one Properties
          /\ \A k \in 1..Len(items[i].kids) : items[i].kids[k].tag \in {"Properties", "Item"}
          /\ \A k \in 1..Len(PropsNode(items[i]).kids) : HasAttr(PropsNode(items[i]).kids[k], "name")
    /\ \A i, j \in 1..Len(items) : i # j => Attr(items[i], "referent") # Attr(items[j], "referent")   \* file-unique
    \* every type element has the specified name and layout
    /\ \A i \in 1..Len(items) : \A k \in 1..Len(PropsNode(items[i]).kids) :
          XmlValue(PropsNode(items[i]).kids[k]).t \notin {"?", "?unknown-tag"}
    \* dictionary: unique keys, base64 contents, every used key defined
    /\ \A i \in 1..Len(SharedDict(doc)) :
          /\ SharedDict(doc)[i].tag = "SharedString" /\ HasAttr(SharedDict(doc)[i], "md5")
          /\ Txt(SharedDict(doc)[i]).b64ok = 1
    /\ \A i, j \in 1..Len(SharedDict(doc)) : i # j => DictKeys(doc)[i] # DictKeys(doc)[j]
    /\ LET pn == AllPropNodes(items) IN
       \A k \in 1..Len(pn) : pn[k].tag = "SharedString" => \E d \in 1..Len(SharedDict(doc)) : DictKeys(doc)[d] = Txt(pn[k]).str

\* diagnosis for a failed DocInvariants: the type elements the value decoder rejects
BadElements(doc) ==
    LET items == ItemsPre(Root(doc).kids) IN
    UNION { { <<i, Attr(items[i], "class"), Attr(PropsNode(items[i]).kids[k], "name"), PropsNode(items[i]).kids[k].tag>> :
                k \in { k \in 1..Len(PropsNode(items[i]).kids) :
                          XmlValue(PropsNode(items[i]).kids[k]).t \in {"?", "?unknown-tag"} } }
            : i \in { i \in 1..Len(items) : Cardinality(KidIdx(items[i], "Properties")) = 1 } }

-----------------------------------------------------------------------------
(* What the writer must store for a property, and what the reader must show   *)

FloatTypes == {"Float32", "Float64"}
IsNaN32(w) == Leq(<<127, 128, 0, 1>>, Mag(w))
IsNaN64(w) == (w[1] % 128 = 127) /\ (w[2] >= 240) /\ (w[2] > 240 \/ \E i \in 3..8 : w[i] # 0)
\* NaN is compared as a class: the text form is NAN, payloads are not representable
FEq(a, b) == a = b \/ (Len(a) = 4 /\ Len(b) = 4 /\ IsNaN32(a) /\ IsNaN32(b)) \/ (Len(a) = 8 /\ Len(b) = 8 /\ IsNaN64(a) /\ IsNaN64(b))
FEqSeq(a, b) == Len(a) = Len(b) /\ \A i \in 1..Len(a) : FEq(a[i], b[i])
\* equality of two payloads of type ty in which float components are compared with FEq
ValEq(ty, a, b) ==
    CASE ty \in {"Float32", "Float64"} -> FEq(a, b)
      [] ty \in {"Vector2", "Vector3", "Color3", "CFrame", "OptionalCFrame", "Ray", "Rect", "NumberRange", "PhysicalProperties"} ->
            FEqSeq(a, b)
      [] ty \in {"NumberSequence", "ColorSequence"} -> Len(a) = Len(b) /\ \A i \in 1..Len(a) : FEqSeq(a[i], b[i])
      [] ty = "UDim" -> FEq(a[1], b[1]) /\ a[2] = b[2]
      [] ty = "UDim2" -> FEq(a[1], b[1]) /\ a[2] = b[2] /\ FEq(a[3], b[3]) /\ a[4] = b[4]
      [] OTHER -> a = b
AttrsEq(a, b) == Len(a) = Len(b) /\ \A i \in 1..Len(a) :
                    a[i][1] = b[i][1] /\ a[i][2].t = b[i][2].t /\ ValEq(a[i][2].t, a[i][2].v, b[i][2].v)

\* value as stored by the writer (docs/xml.md "Type Elements": BrickColor as int, Enum as token, ...)
\* for a value pv whose property serializes with type S ("" when no reflection is used)
StoredForm(pv, S) ==
    LET V == pv.t  v == pv.v IN
    CASE V = "BrickColor" -> [t |-> "Int32", v |-> <<0, 0, v \div 256, v % 256>>]
      [] V = "Tags" -> [t |-> "BinaryString", v |-> JoinNul(v)]
      [] V = "MaterialColors" -> [t |-> "BinaryString", v |-> v]
      [] V = "Attributes" -> [t |-> "AttrBlob", v |-> v]
      [] V = "Color3" /\ S = "Color3uint8" -> [t |-> "Quant", v |-> v]
      [] V = "Font" -> [t |-> "Font", v |-> v]
      [] V = "SharedString" -> [t |-> "SharedBytes", v |-> v]
      [] V = "Ref" -> [t |-> "RefPos", v |-> v]
      [] V = "Content" /\ v[1] = 2 -> [t |-> "ContentRef", v |-> v]
      [] OTHER -> pv

\* does the decoded element value xv (XmlValue) carry the stored form sf?
\* refOf(k): referent string of the Item at forest position k; dict(key): bytes of a dictionary entry
ElementCarries(xv, sf, items, doc) ==
    LET refOf(k) == Attr(items[k], "referent")
        dictBytes(key) == Txt(SharedDict(doc)[CHOOSE d \in 1..Len(SharedDict(doc)) : DictKeys(doc)[d] = key]).b64
    IN
    CASE sf.t = "AttrBlob" -> xv.t = "BinaryString" /\ AttrBlobOK(xv.v, sf.v)
      [] sf.t = "Quant" -> xv.t = "Color3uint8" /\ \A c \in 1..3 : Quantised(sf.v[c], xv.v[c])
      [] sf.t = "SharedBytes" -> xv.t = "SharedKey" /\ (\E d \in 1..Len(SharedDict(doc)) : DictKeys(doc)[d] = xv.v)
                                 /\ dictBytes(xv.v) = sf.v
      [] sf.t = "RefPos" -> xv.t = "RefStr" /\
                            IF sf.v > 0 THEN xv.v = refOf(sf.v)
                            ELSE IF sf.v = 0 THEN xv.v = "null"
                            ELSE (\A k \in 1..Len(items) : xv.v # refOf(k))      \* outside the written set: no Item carries it
      [] sf.t = "ContentRef" -> xv.t = "Content" /\ xv.v[1] = 2
      [] sf.t = "Font" -> xv.t = "Font" /\ xv.v[1] = sf.v[1] /\ xv.v[2] = sf.v[2] /\ xv.v[3] = sf.v[3]
                          /\ xv.v[5] = sf.v[5]
      [] sf.t = "FontMig" -> xv.t = "Font"
      \* the element of a ContentId property may still carry its pre-645 name, Content
      [] sf.t = "ContentId" /\ xv.t = "Content" -> xv.v = (IF sf.v = <<>> THEN <<0>> ELSE <<1, sf.v>>)
      [] OTHER -> xv.t = sf.t /\ ValEq(sf.t, xv.v, sf.v)

\* the logical properties the XML writer stores for an instance under encode behaviour enc:
\* <<stored name (string), value, serialized type>>
XmlStored(class, props, enc) ==
    LET eff == IF enc = "NoReflection" THEN props ELSE EffectiveProps(class, props)
        known(p) == enc # "NoReflection" /\ class \in Classes /\ IsOk(Serialized(class, p[1]))
        keep == SelectSeq([x \in 1..Len(eff) |-> x],
                          LAMBDA x : known(eff[x]) \/ enc \in {"WriteUnknown", "NoReflection"})
    IN [i \in 1..Len(keep) |->
          LET p == eff[keep[i]] IN
          IF known(p) THEN <<Serialized(class, p[1]).desc.name, p[2], SerializedType(class, p[1])>>
          ELSE <<p[1], p[2], "">>]

\* ---- the property-behaviour options (all 4 x 4 combinations) ----
\* A property is unknown to the codec when the database gives no serialized descriptor for it (unknown
\* class, unknown name, or a property that does not serialize).  IgnoreUnknown drops it, WriteUnknown /
\* ReadUnknown pass it through under its own name and type, ErrorOnUnknown fails the whole call, and
\* NoReflection treats every property as unknown-and-passed-through.
UnknownToWriter(B) ==
    \E k \in 1..Len(B.inst) : \E x \in 1..Len(B.inst[k].props) :
        ~(B.inst[k].class \in Classes /\ IsOk(Serialized(B.inst[k].class, B.inst[k].props[x][1])))
WriteExpected(B, enc) == IF enc = "ErrorOnUnknown" /\ UnknownToWriter(B) THEN "err" ELSE "ok"

UnknownToReader(B, enc) ==
    \E k \in 1..Len(B.inst) :
        LET c == B.inst[k].class
            stored == XmlStored(c, B.inst[k].props, enc)
        IN \E x \in 1..Len(stored) :
              ~(c \in Classes /\ IsOk(Canonical(c, stored[x][1])) /\ IsOk(Serialized(c, stored[x][1])))
ReadExpected(B, enc, dec) == IF dec = "ErrorOnUnknown" /\ UnknownToReader(B, enc) THEN "err" ELSE "ok"

\* C05 (writer direction): the document describes exactly the forest
DocIssues(doc, B, enc) ==
    LET items == ItemsPre(Root(doc).kids)
        N == Len(B.inst)
        \* position of the parent Item of items[k] (0 for top level): the nearest earlier item containing it
        RECURSIVE Tree(_, _, _)
        Tree(nodes, parent, acc) ==   \* acc: sequence of <<parentPos>> per item in pre-order
            IF nodes = <<>> THEN acc
            ELSE IF Head(nodes).tag # "Item" THEN Tree(Tail(nodes), parent, acc)
                 ELSE LET me == Len(acc) + 1
                          sub == Tree(Head(nodes).kids, me, Append(acc, parent))
                      IN Tree(Tail(nodes), parent, sub)
        parents == Tree(Root(doc).kids, 0, <<>>)
    IN
    IF Len(items) # N THEN {<<0, "", "", "item-count">>}
    ELSE
    UNION {
       LET it == items[k]
           bi == B.inst[k]
           stored == XmlStored(bi.class, bi.props, enc)
           elems == PropsNode(it).kids
           named(nm) == {e \in 1..Len(elems) : Attr(elems[e], "name") = nm}
       IN
       (IF Attr(it, "class") # bi.class THEN {<<k, bi.class, "", "class">>} ELSE {})
       \cup (IF parents[k] # bi.parent THEN {<<k, bi.class, "", "hierarchy">>} ELSE {})
       \cup (IF \E e \in named("Name") : elems[e].tag = "string" /\ Txt(elems[e]).raw = bi.name
             THEN {} ELSE {<<k, bi.class, "Name", "name">>})
       \cup { <<k, bi.class, stored[x][1], "not-stored-as-written">> :
                x \in { x \in 1..Len(stored) :
                          ~\E e \in named(stored[x][1]) :
                               \E x2 \in 1..Len(stored) :
                                   stored[x2][1] = stored[x][1]
                                   /\ ElementCarries(XmlValue(elems[e]), StoredForm(stored[x2][2], stored[x2][3]), items, doc) } }
       \cup { <<k, bi.class, Attr(elems[e], "name"), "unexplained-element">> :
                e \in { e \in 1..Len(elems) :
                          Attr(elems[e], "name") # "Name" /\ ~\E x \in 1..Len(stored) : stored[x][1] = Attr(elems[e], "name") } }
       \cup { <<k, bi.class, Attr(elems[e], "name"), "duplicate-element">> :
                e \in { e \in 1..Len(elems) : Cardinality(named(Attr(elems[e], "name"))) > 1 } }
       : k \in 1..N }

-----------------------------------------------------------------------------
(* C02: the forest read back                                                  *)

\* what the reader shows for a stored value read under decode behaviour dec, for a property that the
\* database knows (canonical type T) or not (T = "")
XmlReadOK(av, pv, S, T) ==
    LET V == pv.t  v == pv.v IN
    CASE V = "BrickColor" -> IF T = "BrickColor" THEN av = pv ELSE av.t = "Int32" /\ av.v = <<0, 0, v \div 256, v % 256>>
      [] V = "Tags" -> IF T = "Tags" THEN av = pv ELSE av.t = "BinaryString" /\ av.v = JoinNul(v)
      [] V = "MaterialColors" -> IF T = "MaterialColors" THEN av = pv ELSE av.t = "BinaryString" /\ av.v = v
      [] V = "Attributes" -> IF T = "Attributes" THEN av.t = "Attributes" /\ AttrsEq(av.v, NormAttrs(v))
                             ELSE av.t = "BinaryString" /\ AttrBlobOK(av.v, v)
      [] V = "Color3" /\ S = "Color3uint8" -> av.t = "Color3uint8" /\ \A c \in 1..3 : Quantised(v[c], av.v[c])
      [] V = "Ref" -> av.t = "Ref" /\ av.v = (IF v > 0 THEN v ELSE 0)
      [] V = "FontMig" -> av.t = "Font"
      [] V = "Int32" /\ T = "Int64" -> av.t = "Int64" /\ av.v = SignExtend(v)
      [] V = "Float32" /\ T = "Float64" -> av.t = "Float64" /\ FEq(av.v, WidenF32(v))
      [] OTHER -> av.t = V /\ ValEq(V, av.v, v)

XmlRoundTripIssues(A, B, enc, dec) ==
    LET N == Len(B.inst) IN
    IF Len(A.inst) # N THEN {<<0, "", "", "instance-count">>}
    ELSE
    (IF A.roots # B.roots THEN {<<0, "", "", "root-order">>} ELSE {})
    \cup UNION {
       LET ai == A.inst[k]
           bi == B.inst[k]
           stored == XmlStored(bi.class, bi.props, enc)
           refl == dec # "NoReflection"
           \* name and canonical type under which the reader shows a stored element
           knownR(sn) == refl /\ bi.class \in Classes /\ IsOk(Canonical(bi.class, sn)) /\ IsOk(Serialized(bi.class, sn))
           shownName(sn) == IF knownR(sn) THEN CanonicalName(bi.class, sn) ELSE sn
           shownType(sn) == IF knownR(sn) THEN CanonicalType(bi.class, sn) ELSE ""
           kept(sn) == knownR(sn) \/ dec \in {"ReadUnknown", "NoReflection"}
       IN
       (IF ai.class # bi.class THEN {<<k, bi.class, "", "class">>} ELSE {})
       \cup (IF ai.name # bi.name THEN {<<k, bi.class, "", "name">>} ELSE {})
       \cup (IF ai.parent # bi.parent \/ ai.kids # bi.kids THEN {<<k, bi.class, "", "hierarchy">>} ELSE {})
       \cup { <<k, bi.class, stored[x][1], "lost-or-changed">> :
                x \in { x \in 1..Len(stored) :
                          /\ kept(stored[x][1])
                          /\ ~\E y \in 1..Len(ai.props) :
                                /\ ai.props[y][1] = shownName(stored[x][1])
                                /\ \E x2 \in 1..Len(stored) :
                                      /\ shownName(stored[x2][1]) = shownName(stored[x][1])
                                      /\ XmlReadOK(ai.props[y][2], stored[x2][2], stored[x2][3], shownType(stored[x2][1])) } }
       \cup { <<k, bi.class, ai.props[y][1], "unexplained">> :
                y \in { y \in 1..Len(ai.props) :
                          ~\E x \in 1..Len(stored) : kept(stored[x][1]) /\ shownName(stored[x][1]) = ai.props[y][1] } }
       : k \in 1..N }

=============================================================================

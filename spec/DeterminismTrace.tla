-------------------------- MODULE DeterminismTrace --------------------------
(***************************************************************************)
(* C07 on recorded executions: events are (case, variant, logical forest,  *)
(* digests of the serialized bytes, digests of the 2nd and 3rd save).      *)
(* Events of one case are adjacent.  Whenever two events carry the same    *)
(* logical forest - whatever construction history, property insertion      *)
(* order, Ref values or process produced it - every output must be         *)
(* byte-identical; and saving a loaded file reproduces itself.             *)
(***************************************************************************)
EXTENDS Integers, Sequences, FiniteSets, TLC, Json, IOUtils

Rec == ndJsonDeserialize(IOEnv.TRACE)
VARIABLE l
Ev == Rec[l]

Report(name, what) == PrintT(<<"CASEFAIL", ToJson([line |-> l, ep |-> Ev.ep, clause |-> name, issues |-> {<<0, "", what, name>>}])>>)
Formats == {"bin_none", "bin_lz4", "bin_zstd", "xml"}

Earlier == {j \in 1..(l - 1) : Rec[j].case = Ev.case}

CheckCase ==
    /\ \A f \in Formats :
          /\ IF f \in DOMAIN Ev.out THEN TRUE ELSE Report("missing-output", f)
          /\ (f \in DOMAIN Ev.resave) =>
                IF Ev.resave[f][1] = Ev.resave[f][2] /\ Ev.resave[f][1] # "failed" THEN TRUE ELSE Report("resave-not-fixed", f)
    /\ \A j \in Earlier :
          IF Rec[j].forest # Ev.forest THEN Report("logical-content-differs", "harness")     \* not a property violation
          ELSE \A f \in Formats \cap DOMAIN Ev.out \cap DOMAIN Rec[j].out :
                  IF Rec[j].out[f] = Ev.out[f] THEN TRUE ELSE Report("bytes-differ", f)

Step == l <= Len(Rec) /\ CheckCase \in BOOLEAN /\ l' = l + 1
Finish == l = Len(Rec) + 1 /\ PrintT(<<"TRACE_DONE", Len(Rec)>>) /\ l' = l + 1
TraceSpec == l = 1 /\ [][Step \/ Finish]_l
=============================================================================

---------------------------- MODULE UidPairTrace ----------------------------
(***************************************************************************)
(* C12, the ground the DOM's bookkeeping stands on: two UniqueIds are the  *)
(* same id exactly when their three parts (index, time, random) are the    *)
(* same - for `==`, for hashing, for a set of ids, and therefore for what  *)
(* WeakDom::insert takes for a collision.  Each event is one ordered pair  *)
(* (a, b) of ids from a structured family (base ids and their neighbours:  *)
(* single bits flipped in one part, in two parts at once, shared negative  *)
(* random parts): the parts as big-endian bytes, the answers of the        *)
(* library, and what a DOM did when an instance carrying a was inserted    *)
(* and then one carrying b.                                                *)
(***************************************************************************)
EXTENDS Naturals, Sequences, TLC, Json, IOUtils

Rec == ndJsonDeserialize(IOEnv.TRACE)
VARIABLE l
Ev == Rec[l]

Report(name) == PrintT(<<"CASEFAIL", ToJson([line |-> l, ep |-> Ev.ep, clause |-> name, issues |-> {}])>>)
Clause(name, holds) == IF holds THEN TRUE ELSE Report(name)

Same == Ev.a = Ev.b

CheckCase ==
    /\ Clause("eq", Ev.eq = Same)
    /\ Clause("hash", Same => Ev.hash_eq)
    /\ Clause("set", Ev.set_len = (IF Same THEN 1 ELSE 2))
    \* "replaced only when bringing it into a DOM would collide with an id already present there, and otherwise
    \*  preserved exactly"
    /\ Clause("dom-first-kept", Ev.dom.first = Ev.a)
    /\ Clause("dom-second", IF Same THEN Ev.dom.second # Ev.b ELSE Ev.dom.second = Ev.b)
    /\ Clause("dom-distinct", Ev.dom.first # Ev.dom.second)

Step == l <= Len(Rec) /\ CheckCase \in BOOLEAN /\ l' = l + 1
Finish == l = Len(Rec) + 1 /\ PrintT(<<"TRACE_DONE", Len(Rec)>>) /\ l' = l + 1
TraceSpec == l = 1 /\ [][Step \/ Finish]_l
=============================================================================

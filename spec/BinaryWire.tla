----------------------------- MODULE BinaryWire -----------------------------
(***************************************************************************)
(* docs/binary.md transcribed into decoding operators over byte sequences. *)
(* This module shares nothing with rbx_binary; it is the "independent      *)
(* decoder written from the format specification" of property C03 and the  *)
(* judge of the foreign encoder used for C04.                              *)
(*                                                                         *)
(* Values come out in the same representation the harness uses to project  *)
(* real values (harness/src/pval.rs): every scalar is its big-endian bit   *)
(* pattern as a byte vector, so equality is bit-identity.                  *)
(*                                                                         *)
(* Dialect: two places where docs/binary.md and the code disagree are a    *)
(* parameter.  "doc" follows the document literally; "code" follows        *)
(* rbx_binary.  (UniqueId.Random: document says unmodified, code stores it *)
(* rotated left by one bit.  Content.SourceTypes: document says Array(Enum)*)
(* i.e. untransformed, code writes transformed Int32s.)                    *)
(***************************************************************************)
EXTENDS Integers, Sequences, FiniteSets, TLC

-----------------------------------------------------------------------------
(* small numbers from bytes (lengths, counts, ids: all below 2^31)           *)

U16LE(b, p) == b[p] + 256 * b[p + 1]
U32LE(b, p) == b[p] + 256 * b[p + 1] + 65536 * b[p + 2] + 16777216 * b[p + 3]
\* a 32-bit field that is only ever compared for equality (class ids): TLC's integers are 32-bit signed, so the
\* field is read as its two's-complement value - ids of 2^31 and above become negative, distinct ids stay distinct
Id32LE(b, p) == b[p] + 256 * b[p + 1] + 65536 * b[p + 2] + 16777216 * (IF b[p + 3] < 128 THEN b[p + 3] ELSE b[p + 3] - 256)
U32BE(w)    == w[4] + 256 * w[3] + 65536 * w[2] + 16777216 * w[1]
FitsU31LE(b, p) == p + 3 <= Len(b) /\ b[p + 3] < 128

\* two's complement big-endian word (4 bytes) as an integer
S32BE(w) == IF w[1] < 128 THEN U32BE(w)
            ELSE -((255 - w[4]) + 256 * (255 - w[3]) + 65536 * (255 - w[2]) + 16777216 * (255 - w[1]) + 1)
S16LE(b, p) == LET u == U16LE(b, p) IN IF u >= 32768 THEN u - 65536 ELSE u

Slice(b, p, n) == [i \in 1..n |-> b[p + i - 1]]
Rev(b, p, n)   == [i \in 1..n |-> b[p + n - i]]          \* little-endian field -> big-endian bit pattern

-----------------------------------------------------------------------------
(* "Data Storage Notes" of the document, on big-endian byte vectors          *)

\* logical shift right by one bit
Shr1(w) == [j \in 1..Len(w) |-> (w[j] \div 2) + (IF j > 1 THEN (w[j - 1] % 2) * 128 ELSE 0)]
\* shift left by one bit, dropping the top bit
Shl1(w) == [j \in 1..Len(w) |-> ((w[j] * 2) % 256) + (IF j < Len(w) THEN w[j + 1] \div 128 ELSE 0)]
Not(w)  == [j \in 1..Len(w) |-> 255 - w[j]]

\* Integer Transformations: untransform is (x >> 1) ^ -(x & 1)
UnZig(w) == IF w[Len(w)] % 2 = 1 THEN Not(Shr1(w)) ELSE Shr1(w)
\* transform is (x << 1) ^ (x >> 31)
Zig(w)   == IF w[1] >= 128 THEN Not(Shl1(w)) ELSE Shl1(w)

\* Roblox Float Format: eeeeeeee mmm...m s  ->  s eeeeeeee mmm...m
UnRot(w) == LET h == Shr1(w) IN [h EXCEPT ![1] = h[1] + (w[Len(w)] % 2) * 128]
Rot(w)   == LET h == Shl1(w) IN [h EXCEPT ![Len(w)] = h[Len(w)] + (w[1] \div 128)]

\* Byte Interleaving: n values of width w stored column-major at offset p
Deint(b, p, n, w) == [i \in 1..n |-> [j \in 1..w |-> b[p + (j - 1) * n + (i - 1)]]]

-----------------------------------------------------------------------------
(* arrays of the component encodings; each returns [v |-> values, p |-> next offset] *)

F32Array(b, p, n) == LET d == Deint(b, p, n, 4) IN [v |-> [i \in 1..n |-> UnRot(d[i])], p |-> p + 4 * n]
I32Array(b, p, n) == LET d == Deint(b, p, n, 4) IN [v |-> [i \in 1..n |-> UnZig(d[i])], p |-> p + 4 * n]
U32Array(b, p, n) == [v |-> Deint(b, p, n, 4), p |-> p + 4 * n]
I64Array(b, p, n) == LET d == Deint(b, p, n, 8) IN [v |-> [i \in 1..n |-> UnZig(d[i])], p |-> p + 8 * n]

\* Referent arrays are Int32 arrays read accumulatively
RefArray(b, p, n) ==
    LET a == I32Array(b, p, n).v
        acc[i \in 0..n] == IF i = 0 THEN 0 ELSE acc[i - 1] + S32BE(a[i])
    IN [v |-> [i \in 1..n |-> acc[i]], p |-> p + 4 * n]

RECURSIVE Strings(_, _, _)
Strings(b, p, n) ==
    IF n = 0 THEN [v |-> <<>>, p |-> p]
    ELSE LET len  == U32LE(b, p)
             rest == Strings(b, p + 4 + len, n - 1)
         IN [v |-> <<Slice(b, p + 4, len)>> \o rest.v, p |-> rest.p]

\* n fixed-size records of k little-endian f32 fields each
F32LERecords(b, p, n, k) ==
    [v |-> [i \in 1..n |-> [f \in 1..k |-> Rev(b, p + (i - 1) * 4 * k + (f - 1) * 4, 4)]], p |-> p + 4 * k * n]

-----------------------------------------------------------------------------
(* The 24 axis-aligned rotations.  The document lists them as Euler angles   *)
(* (degrees, applied Y -> X -> Z); the matrices below are R = Ry * Rx * Rz   *)
(* for those angles, rows R00 R01 R02 / R10 R11 R12 / R20 R21 R22, computed  *)
(* with exact arithmetic by tools/gen_rotation_table.py.                     *)

Z4 == <<0, 0, 0, 0>>       \* 0.0
P1 == <<63, 128, 0, 0>>    \* 1.0
M1 == <<191, 128, 0, 0>>   \* -1.0

BasicRotation(id) ==
    CASE id = 2  -> <<P1, Z4, Z4, Z4, P1, Z4, Z4, Z4, P1>>
      [] id = 3  -> <<P1, Z4, Z4, Z4, Z4, M1, Z4, P1, Z4>>
      [] id = 5  -> <<P1, Z4, Z4, Z4, M1, Z4, Z4, Z4, M1>>
      [] id = 6  -> <<P1, Z4, Z4, Z4, Z4, P1, Z4, M1, Z4>>
      [] id = 7  -> <<Z4, P1, Z4, P1, Z4, Z4, Z4, Z4, M1>>
      [] id = 9  -> <<Z4, Z4, P1, P1, Z4, Z4, Z4, P1, Z4>>
      [] id = 10 -> <<Z4, M1, Z4, P1, Z4, Z4, Z4, Z4, P1>>
      [] id = 12 -> <<Z4, Z4, M1, P1, Z4, Z4, Z4, M1, Z4>>
      [] id = 13 -> <<Z4, P1, Z4, Z4, Z4, P1, P1, Z4, Z4>>
      [] id = 14 -> <<Z4, Z4, M1, Z4, P1, Z4, P1, Z4, Z4>>
      [] id = 16 -> <<Z4, M1, Z4, Z4, Z4, M1, P1, Z4, Z4>>
      [] id = 17 -> <<Z4, Z4, P1, Z4, M1, Z4, P1, Z4, Z4>>
      [] id = 20 -> <<M1, Z4, Z4, Z4, P1, Z4, Z4, Z4, M1>>
      [] id = 21 -> <<M1, Z4, Z4, Z4, Z4, P1, Z4, P1, Z4>>
      [] id = 23 -> <<M1, Z4, Z4, Z4, M1, Z4, Z4, Z4, P1>>
      [] id = 24 -> <<M1, Z4, Z4, Z4, Z4, M1, Z4, M1, Z4>>
      [] id = 25 -> <<Z4, P1, Z4, M1, Z4, Z4, Z4, Z4, P1>>
      [] id = 27 -> <<Z4, Z4, M1, M1, Z4, Z4, Z4, P1, Z4>>
      [] id = 28 -> <<Z4, M1, Z4, M1, Z4, Z4, Z4, Z4, M1>>
      [] id = 30 -> <<Z4, Z4, P1, M1, Z4, Z4, Z4, M1, Z4>>
      [] id = 31 -> <<Z4, P1, Z4, Z4, Z4, M1, M1, Z4, Z4>>
      [] id = 32 -> <<Z4, Z4, P1, Z4, P1, Z4, M1, Z4, Z4>>
      [] id = 34 -> <<Z4, M1, Z4, Z4, Z4, P1, M1, Z4, Z4>>
      [] id = 35 -> <<Z4, Z4, M1, Z4, M1, Z4, M1, Z4, Z4>>
      [] OTHER   -> <<>>
BasicRotationIds == {2, 3, 5, 6, 7, 9, 10, 12, 13, 14, 16, 17, 20, 21, 23, 24, 25, 27, 28, 30, 31, 32, 34, 35}

\* the rotation parts of n CFrames: for each value an id byte, then 9 little-endian f32 if the id is 0
RECURSIVE Rotations(_, _, _)
Rotations(b, p, n) ==
    IF n = 0 THEN [v |-> <<>>, p |-> p, ok |-> TRUE]
    ELSE LET id == b[p] IN
         IF id = 0
         THEN LET rest == Rotations(b, p + 37, n - 1)
              IN [v |-> <<[f \in 1..9 |-> Rev(b, p + 1 + (f - 1) * 4, 4)]>> \o rest.v, p |-> rest.p, ok |-> rest.ok]
         ELSE LET rest == Rotations(b, p + 1, n - 1)
              IN [v |-> <<BasicRotation(id)>> \o rest.v, p |-> rest.p, ok |-> rest.ok /\ id \in BasicRotationIds]

\* n CFrames -> [v |-> << <<x,y,z, r00..r22>> ... >>]
CFrames(b, p, n) ==
    LET rot == Rotations(b, p, n)
        x == F32Array(b, rot.p, n)
        y == F32Array(b, x.p, n)
        z == F32Array(b, y.p, n)
    IN [v |-> [i \in 1..n |-> <<x.v[i], y.v[i], z.v[i]>> \o rot.v[i]], p |-> z.p, ok |-> rot.ok]

-----------------------------------------------------------------------------
(* variable-length records                                                   *)

RECURSIVE NumSeqs(_, _, _)
NumSeqs(b, p, n) ==
    IF n = 0 THEN [v |-> <<>>, p |-> p]
    ELSE LET k == U32LE(b, p)
             kp == F32LERecords(b, p + 4, k, 3)
             rest == NumSeqs(b, kp.p, n - 1)
         IN [v |-> <<kp.v>> \o rest.v, p |-> rest.p]

RECURSIVE ColorSeqs(_, _, _)
ColorSeqs(b, p, n) ==
    IF n = 0 THEN [v |-> <<>>, p |-> p]
    ELSE LET k == U32LE(b, p)
             kp == F32LERecords(b, p + 4, k, 5)          \* time, r, g, b, (unused envelope)
             rest == ColorSeqs(b, kp.p, n - 1)
         IN [v |-> <<[i \in 1..k |-> SubSeq(kp.v[i], 1, 4)]>> \o rest.v, p |-> rest.p]

RECURSIVE PhysProps(_, _, _)
PhysProps(b, p, n) ==
    IF n = 0 THEN [v |-> <<>>, p |-> p]
    ELSE IF b[p] = 0
         THEN LET rest == PhysProps(b, p + 1, n - 1) IN [v |-> <<<<>>>> \o rest.v, p |-> rest.p]
         ELSE LET rest == PhysProps(b, p + 21, n - 1)
              IN [v |-> <<F32LERecords(b, p + 1, 1, 5).v[1]>> \o rest.v, p |-> rest.p]

RECURSIVE Fonts(_, _, _)
Fonts(b, p, n) ==
    IF n = 0 THEN [v |-> <<>>, p |-> p]
    ELSE LET fl == U32LE(b, p)
             q  == p + 4 + fl
             cl == U32LE(b, q + 3)
             rest == Fonts(b, q + 7 + cl, n - 1)
         IN [v |-> << <<Slice(b, p + 4, fl), U16LE(b, q), b[q + 2], Slice(b, q + 7, cl)>> >> \o rest.v, p |-> rest.p]

-----------------------------------------------------------------------------
(* PROP values by Type ID.  Result: [ok, t (wire type name), v (sequence of n payloads), p] *)

TypeName(id) ==
    CASE id = 1 -> "String"   [] id = 2 -> "Bool"      [] id = 3 -> "Int32"    [] id = 4 -> "Float32"
      [] id = 5 -> "Float64"  [] id = 6 -> "UDim"      [] id = 7 -> "UDim2"    [] id = 8 -> "Ray"
      [] id = 9 -> "Faces"    [] id = 10 -> "Axes"     [] id = 11 -> "BrickColor" [] id = 12 -> "Color3"
      [] id = 13 -> "Vector2" [] id = 14 -> "Vector3"  [] id = 16 -> "CFrame"  [] id = 18 -> "Enum"
      [] id = 19 -> "Ref"     [] id = 20 -> "Vector3int16" [] id = 21 -> "NumberSequence"
      [] id = 22 -> "ColorSequence" [] id = 23 -> "NumberRange" [] id = 24 -> "Rect"
      [] id = 25 -> "PhysicalProperties" [] id = 26 -> "Color3uint8" [] id = 27 -> "Int64"
      [] id = 28 -> "SharedString" [] id = 29 -> "Bytecode" [] id = 30 -> "OptionalCFrame"
      [] id = 31 -> "UniqueId" [] id = 32 -> "Font" [] id = 33 -> "SecurityCapabilities"
      [] id = 34 -> "Content" [] OTHER -> "?"

Ok(t, r) == [ok |-> TRUE, t |-> t, v |-> r.v, p |-> r.p]

Values(dialect, id, b, p, n) ==
    CASE id \in {1, 29} -> Ok(TypeName(id), Strings(b, p, n))
      [] id = 2  -> Ok("Bool", [v |-> Slice(b, p, n), p |-> p + n])
      [] id = 3  -> Ok("Int32", I32Array(b, p, n))
      [] id = 4  -> Ok("Float32", F32Array(b, p, n))
      [] id = 5  -> Ok("Float64", [v |-> [i \in 1..n |-> Rev(b, p + 8 * (i - 1), 8)], p |-> p + 8 * n])
      [] id = 6  -> LET s == F32Array(b, p, n)  o == I32Array(b, s.p, n)
                    IN Ok("UDim", [v |-> [i \in 1..n |-> <<s.v[i], o.v[i]>>], p |-> o.p])
      [] id = 7  -> LET sx == F32Array(b, p, n)  sy == F32Array(b, sx.p, n)
                        ox == I32Array(b, sy.p, n)  oy == I32Array(b, ox.p, n)
                    IN Ok("UDim2", [v |-> [i \in 1..n |-> <<sx.v[i], ox.v[i], sy.v[i], oy.v[i]>>], p |-> oy.p])
      [] id = 8  -> Ok("Ray", F32LERecords(b, p, n, 6))
      [] id = 9  -> Ok("Faces", [v |-> Slice(b, p, n), p |-> p + n])
      [] id = 10 -> Ok("Axes", [v |-> Slice(b, p, n), p |-> p + n])
      [] id = 11 -> LET a == U32Array(b, p, n)
                    IN Ok("BrickColor", [v |-> [i \in 1..n |-> IF a.v[i][1] < 128 THEN U32BE(a.v[i]) ELSE -1], p |-> a.p])
      [] id = 12 -> LET r == F32Array(b, p, n)  g == F32Array(b, r.p, n)  bl == F32Array(b, g.p, n)
                    IN Ok("Color3", [v |-> [i \in 1..n |-> <<r.v[i], g.v[i], bl.v[i]>>], p |-> bl.p])
      [] id = 13 -> LET x == F32Array(b, p, n)  y == F32Array(b, x.p, n)
                    IN Ok("Vector2", [v |-> [i \in 1..n |-> <<x.v[i], y.v[i]>>], p |-> y.p])
      [] id = 14 -> LET x == F32Array(b, p, n)  y == F32Array(b, x.p, n)  z == F32Array(b, y.p, n)
                    IN Ok("Vector3", [v |-> [i \in 1..n |-> <<x.v[i], y.v[i], z.v[i]>>], p |-> z.p])
      [] id = 16 -> LET c == CFrames(b, p, n) IN [ok |-> c.ok, t |-> "CFrame", v |-> c.v, p |-> c.p]
      [] id = 18 -> Ok("Enum", U32Array(b, p, n))
      [] id = 19 -> Ok("Ref", RefArray(b, p, n))
      [] id = 20 -> Ok("Vector3int16", [v |-> [i \in 1..n |-> <<S16LE(b, p + 6 * (i - 1)), S16LE(b, p + 6 * (i - 1) + 2),
                                                               S16LE(b, p + 6 * (i - 1) + 4)>>], p |-> p + 6 * n])
      [] id = 21 -> Ok("NumberSequence", NumSeqs(b, p, n))
      [] id = 22 -> Ok("ColorSequence", ColorSeqs(b, p, n))
      [] id = 23 -> Ok("NumberRange", F32LERecords(b, p, n, 2))
      [] id = 24 -> LET a == F32Array(b, p, n)  c == F32Array(b, a.p, n)  d == F32Array(b, c.p, n)  e == F32Array(b, d.p, n)
                    IN Ok("Rect", [v |-> [i \in 1..n |-> <<a.v[i], c.v[i], d.v[i], e.v[i]>>], p |-> e.p])
      [] id = 25 -> Ok("PhysicalProperties", PhysProps(b, p, n))
      [] id = 26 -> Ok("Color3uint8", [v |-> [i \in 1..n |-> <<b[p + i - 1], b[p + n + i - 1], b[p + 2 * n + i - 1]>>], p |-> p + 3 * n])
      [] id = 27 -> Ok("Int64", I64Array(b, p, n))
      [] id = 28 -> LET a == U32Array(b, p, n)
                    IN Ok("SharedString", [v |-> [i \in 1..n |-> U32BE(a.v[i])], p |-> a.p])
      [] id = 30 -> \* the CFrame type id, the CFrames, the Bool type id, one Bool per value
                    LET c == CFrames(b, p + 1, n) IN
                    [ok |-> c.ok /\ b[p] = 16 /\ b[c.p] = 2, t |-> "OptionalCFrame",
                     v |-> [i \in 1..n |-> IF b[c.p + i] = 0 THEN <<>> ELSE c.v[i]], p |-> c.p + 1 + n]
      [] id = 31 -> LET a == Deint(b, p, n, 16) IN
                    Ok("UniqueId", [v |-> [i \in 1..n |->
                          <<SubSeq(a[i], 1, 4), SubSeq(a[i], 5, 8),
                            IF dialect = "doc" THEN SubSeq(a[i], 9, 16)
                            ELSE LET w == SubSeq(a[i], 9, 16)                       \* rotate right by one bit
                                     h == Shr1(w) IN [h EXCEPT ![1] = h[1] + (w[8] % 2) * 128]>>], p |-> p + 16 * n])
      [] id = 32 -> Ok("Font", Fonts(b, p, n))
      [] id = 33 -> Ok("SecurityCapabilities", I64Array(b, p, n))
      [] id = 34 -> \* SourceTypes, UriCount, Uris, ObjectCount, ObjectRefs, ExternalObjectCount, ExternalObjectRefs
                    LET ua  == U32Array(b, p, n).v
                        ia  == I32Array(b, p, n).v
                        st  == IF dialect = "doc" THEN [i \in 1..n |-> IF ua[i][1] < 128 THEN U32BE(ua[i]) ELSE -1]
                               ELSE [i \in 1..n |-> S32BE(ia[i])]
                        uc  == U32LE(b, p + 4 * n)
                        us  == Strings(b, p + 4 * n + 4, uc)
                        oc  == U32LE(b, us.p)
                        os  == RefArray(b, us.p + 4, oc)
                        ec  == U32LE(b, os.p)
                        nth(k, i) == Cardinality({j \in 1..i : st[j] = k})      \* rank among items of kind k
                    IN [ok |-> /\ \A i \in 1..n : st[i] \in {0, 1, 2}
                               /\ uc = Cardinality({i \in 1..n : st[i] = 1})
                               /\ oc = Cardinality({i \in 1..n : st[i] = 2}),
                        t |-> "Content",
                        v |-> [i \in 1..n |-> IF st[i] = 1 /\ nth(1, i) <= uc THEN <<1, us.v[nth(1, i)]>>
                                              ELSE IF st[i] = 2 /\ nth(2, i) <= oc THEN <<2, os.v[nth(2, i)]>>
                                              ELSE <<st[i]>>],
                        p |-> os.p + 4 + 4 * ec]
      [] OTHER -> [ok |-> FALSE, t |-> "?", v |-> <<>>, p |-> p]

-----------------------------------------------------------------------------
(* File header and chunk frames                                              *)

Magic     == <<60, 114, 111, 98, 108, 111, 120, 33>>          \* <roblox!
Signature == <<137, 255, 13, 10, 26, 10>>                     \* 89 ff 0d 0a 1a 0a
EndMagic  == <<60, 47, 114, 111, 98, 108, 111, 120, 62>>      \* </roblox>
ZstdMagic == <<40, 181, 47, 253>>

HeaderOK(h) ==
    /\ Len(h) = 32
    /\ SubSeq(h, 1, 8) = Magic
    /\ SubSeq(h, 9, 14) = Signature
    /\ U16LE(h, 15) = 0
    /\ \A i \in 25..32 : h[i] = 0
HeaderClasses(h)   == U32LE(h, 17)
HeaderInstances(h) == U32LE(h, 21)

\* one chunk as delivered by the harness: the 16 frame bytes, the number of body bytes stored
\* in the file, how the body was compressed, and the (decompressed) chunk data
FrameOK(c) ==
    LET f == c.frame IN
    /\ Len(f) = 16
    /\ \A i \in 13..16 : f[i] = 0                                            \* reserved
    /\ U32LE(f, 9) = Len(c.payload)                                          \* uncompressed length
    /\ IF c.method = "none" THEN U32LE(f, 5) = 0 /\ c.stored = Len(c.payload)
       ELSE U32LE(f, 5) = c.stored /\ c.stored > 0

-----------------------------------------------------------------------------
(* Chunk contents                                                            *)

DecodeInst(d) ==
    LET id   == Id32LE(d, 1)
        nl   == U32LE(d, 5)
        name == Slice(d, 9, nl)
        q    == 9 + nl
        fmt  == d[q]
        n    == U32LE(d, q + 1)
        refs == RefArray(d, q + 5, n)
    IN [id |-> id, class |-> name, format |-> fmt, n |-> n, refs |-> refs.v,
        ok |-> /\ fmt \in {0, 1}
               /\ IF fmt = 1 THEN Len(d) = refs.p - 1 + n /\ \A i \in 1..n : d[refs.p + i - 1] = 1
                  ELSE Len(d) = refs.p - 1]

\* n = number of instances of the class (from its INST chunk)
DecodeProp(dialect, d, n) ==
    LET id == Id32LE(d, 1)
        nl == U32LE(d, 5)
        q  == 9 + nl
    IN IF Len(d) < q THEN [class |-> id, name |-> Slice(d, 9, nl), present |-> FALSE]
       ELSE LET vals == Values(dialect, d[q], d, q + 1, n) IN
            [class |-> id, name |-> Slice(d, 9, nl), present |-> TRUE, type |-> d[q], t |-> vals.t, values |-> vals.v,
             ok |-> vals.ok /\ vals.p = Len(d) + 1]

DecodePrnt(d) ==
    LET n == U32LE(d, 2)
        kids == RefArray(d, 6, n)
        pars == RefArray(d, kids.p, n)
    IN [version |-> d[1], n |-> n, child |-> kids.v, parent |-> pars.v, ok |-> pars.p = Len(d) + 1]

DecodeSstr(d) ==
    LET n == U32LE(d, 5)
        RECURSIVE Go(_, _)
        Go(p, k) == IF k = 0 THEN [v |-> <<>>, p |-> p]
                    ELSE LET len == U32LE(d, p + 16)  rest == Go(p + 20 + len, k - 1)
                         IN [v |-> <<Slice(d, p + 20, len)>> \o rest.v, p |-> rest.p]
        r == Go(9, n)
    IN [version |-> U32LE(d, 1), n |-> n, strings |-> r.v, ok |-> r.p = Len(d) + 1]

=============================================================================

------------------------------ MODULE AttrTrace ------------------------------
(***************************************************************************)
(* C14: attribute maps through Attributes::to_writer / from_reader.        *)
(*  attr_case    map -> blob -> map: the blob must follow                  *)
(*               docs/attributes.md (AttrWire decodes it to the map) and   *)
(*               the reader must return the map; an empty map is zero      *)
(*               bytes.                                                    *)
(*  attr_foreign blob from an independent encoder: AttrWire must read the  *)
(*               described values (the encoder is held to the document)    *)
(*               and so must the real reader.                              *)
(***************************************************************************)
EXTENDS BinaryFormat

Rec == ndJsonDeserialize(IOEnv.TRACE)
VARIABLE l
Ev == Rec[l]

Report(name) == PrintT(<<"CASEFAIL", ToJson([line |-> l, ep |-> Ev.ep, clause |-> name, issues |-> {}])>>)
Clause(name, holds) == IF holds THEN TRUE ELSE Report(name)

SameMap(a, b) == Len(a) = Len(b) /\ {a[i] : i \in 1..Len(a)} = {b[i] : i \in 1..Len(b)}

CheckCase ==
    \* maps far too large to decode here, made of values that come back exactly as written: compared by fingerprint
    IF Ev.op = "attr_fp"
    THEN /\ Clause("write", Ev.write = "ok")
         /\ Ev.write = "ok" =>
               /\ Clause("read", Ev.read = "ok")
               /\ Ev.read = "ok" => Clause("roundtrip", Ev.fp_after = Ev.fp_before)
    ELSE IF Ev.op = "attr_case"
    THEN /\ Clause("write", Ev.write = "ok")
         /\ Ev.write = "ok" =>
               /\ Clause("empty-is-zero-bytes", (Ev.map = <<>>) <=> (Ev.blob = <<>>))
               /\ Clause("layout", AttrBlobOK(Ev.blob, Ev.map))
               /\ Clause("read", Ev.back.read = "ok")
               /\ Ev.back.read = "ok" => Clause("roundtrip", SameMap(Ev.back.map, NormAttrs(Ev.map)))
               \* the same blob is what both file formats store: the map on the first of three sibling instances, the
               \* stored bytes recovered by reading the files without the database
               /\ ("chunked" \in DOMAIN Ev) => Clause("sink-independent", Ev.chunked = Ev.blob)
               \* what is decoded does not depend on how the source cuts the bytes into read() results
               /\ ("back_pieces" \in DOMAIN Ev) => Clause("source-independent", Ev.back_pieces.read = Ev.back.read
                                                            /\ (Ev.back.read = "ok" => Ev.back_pieces.map = Ev.back.map))
               /\ ("files" \in DOMAIN Ev /\ "expected" \in DOMAIN Ev.files) =>
                     /\ Clause("files-own-blob", Ev.files.expected[1] = Ev.blob)
                     /\ Clause("files-binary", Ev.files.bin = Ev.files.expected)
                     /\ Clause("files-xml", Ev.files.xml = Ev.files.expected)
    ELSE /\ Clause("generator-layout", DecodeAttrs(Ev.blob).ok /\ SameMap(DecodeAttrs(Ev.blob).v, Ev.described))
         /\ Clause("read", Ev.back.read = "ok")
         /\ Ev.back.read = "ok" => Clause("decoded", SameMap(Ev.back.map, Ev.described))

Step == l <= Len(Rec) /\ CheckCase \in BOOLEAN /\ l' = l + 1
Finish == l = Len(Rec) + 1 /\ PrintT(<<"TRACE_DONE", Len(Rec)>>) /\ l' = l + 1
TraceSpec == l = 1 /\ [][Step \/ Finish]_l
=============================================================================

---------------------- MODULE ReflectionLookupTrace ----------------------
(***************************************************************************)
(* C16, lookups: what rbx_reflection's own query functions answer for the  *)
(* bundled database (one logged line per class) is what Reflection.tla -   *)
(* which every codec specification uses - computes from the exported       *)
(* tables: the superclass chain, IsA, and the nearest default on the chain.*)
(***************************************************************************)
EXTENDS Reflection, Json, TLC

Rec == ndJsonDeserialize(IOEnv.TRACE)
VARIABLE l
Ev == Rec[l]

Report(name, issues) == PrintT(<<"CASEFAIL", ToJson([line |-> l, ep |-> Ev.ep, clause |-> name, issues |-> issues])>>)

LookupIssues ==
    LET c == Ev.class
        ch == Chain(c)
    IN
    (IF Ev.chain # ch THEN {<<0, c, "", "superclasses">>} ELSE {})
    \cup (IF Ev.chain_iter # ch THEN {<<0, c, "", "superclasses_iter">>} ELSE {})
    \cup { <<0, c, Ev.isa[i][1], "has_superclass">> :
             i \in {i \in 1..Len(Ev.isa) : (Ev.isa[i][2] = 1) # (\E j \in 1..Len(ch) : ch[j] = Ev.isa[i][1])} }
    \cup { <<0, c, Ev.defaults[i][1], "find_default_property">> :
             i \in {i \in 1..Len(Ev.defaults) : Ev.defaults[i][2] # DefaultOf(c, Ev.defaults[i][1])} }

Step == /\ l <= Len(Rec)
        /\ (LET iss == LookupIssues IN IF iss = {} THEN TRUE ELSE Report("lookup", iss)) \in BOOLEAN
        /\ l' = l + 1
Finish == l = Len(Rec) + 1 /\ PrintT(<<"TRACE_DONE", Len(Rec)>>) /\ l' = l + 1
TraceSpec == l = 1 /\ [][Step \/ Finish]_l
=============================================================================

----------------------------- MODULE MCWeakDom -----------------------------
(***************************************************************************)
(* Model-checking instance of WeakDom (binding A): every action with every *)
(* valid argument, small constants.  Also states C10/C11 as action         *)
(* properties that are independent re-statements of what the actions       *)
(* define, so that an edit making an action sloppy is caught by TLC.       *)
(***************************************************************************)
EXTENDS WeakDom, FiniteSetsExt

CONSTANTS MaxUid,        \* uid tokens 1..MaxUid
          BUids,         \* ids a builder may carry explicitly
          MaxRefProps,   \* bound on the number of instances holding a Ref property
          MaxCloneRoots, \* 1 or 2: roots per clone call
          RootlessDoms   \* DOMs that start as WeakDom::default() + insert(Ref::none(), one instance)

-----------------------------------------------------------------------------
Shapes == {<<0>>, <<0, 1>>, <<0, 1, 1>>, <<0, 1, 2>>}

BuildersOf(shapes) ==
    UNION { { [i \in 1..Len(sh) |->
                 [pi |-> sh[i], label |-> nextRef + i - 1, refp |-> AbsentAll, uid |-> us[i]]]
              : us \in [1..Len(sh) -> BUids \cup {NoUid}] }
            : sh \in shapes }

Lowest(S, k) == {x \in S : Cardinality({y \in S : y < x}) < k}

\* candidate successor values for uid: untouched outside E and Gone; an entering
\* instance either keeps what it brought (K = the keepers) or draws a fresh token; fresh
\* tokens are the lowest unused ones, handed out in referent order (a symmetry cut that
\* belongs to model checking only - the trace specification accepts any fresh token)
UidCands(E, pu, Gone) ==
    LET brought == {pu[r] : r \in E} \ {NoUid}
        pool    == (1..MaxUid) \ (seen \cup brought \cup BUids)
        nth(S, k) == CHOOSE x \in S : Cardinality({y \in S : y < x}) = k - 1
    IN { [r \in Refs |->
            IF r \in E
            THEN (IF pu[r] = NoUid THEN NoUid
                  ELSE IF r \in K THEN pu[r]
                  ELSE nth(pool, Cardinality({x \in E \ K : pu[x] # NoUid /\ x <= r})))
            ELSE IF r \in Gone THEN NoUid ELSE uid[r]]
         : K \in SUBSET {r \in E : pu[r] # NoUid} }

NewRange(n) == nextRef..(nextRef + n - 1)

New(d, b) ==
    /\ NewS(d, b)
    /\ uid' \in UidCands(NewRange(Len(b)), [r \in NewRange(Len(b)) |-> b[r - nextRef + 1].uid], {})
    /\ NewU(d, b)

Insert(d, p, b) ==
    /\ InsertS(d, p, b)
    /\ uid' \in UidCands(NewRange(Len(b)), [r \in NewRange(Len(b)) |-> b[r - nextRef + 1].uid], {})
    /\ InsertU(d, p, b)

\* a builder one of whose nodes (the first or the last) was given the referent c of an instance of the DOM
InsertCollide(d, p, b, k, c) ==
    /\ InsertCollideS(d, p, b, k, c)
    /\ nextRef' = nextRef + k - 1          \* the model follows the code: the nodes before the colliding one are in place
    /\ IF k = 1 THEN UidUnchanged
       ELSE /\ uid' \in UidCands(NewRange(k - 1), [r \in NewRange(k - 1) |-> b[r - nextRef + 1].uid], {})
            /\ InsertCollideU(d, p, b, k)

Destroy(d, r) ==
    /\ DestroyS(d, r)
    /\ uid' \in UidCands({}, <<>>, Desc(r))
    /\ DestroyU(d, r)

Transfer(d, r, e, p) ==
    /\ TransferS(d, r, e, p)
    /\ uid' \in UidCands(Desc(r), [x \in Desc(r) |-> uid[x]], {})
    /\ TransferU(d, r, e, p)

TransferWithin(d, r, p) == TransferWithinS(d, r, p) /\ UidUnchanged

Clone(d, rs, e) ==
    LET order == CloneOrder(rs)
        new == NewRange(Len(order))
    IN
    /\ CloneS(d, rs, e)
    /\ uid' \in UidCands(new, [x \in new |-> uid[order[x - nextRef + 1]]], {})
    /\ CloneU(d, rs, e)

RawTrip(d) == RawTripS(d) /\ RawTripU(d)

SetRef(r, s, v) ==
    /\ SetRefS(r, s, v)
    /\ refp[r][s] = Absent            \* model bound: each slot is written once
    /\ UidUnchanged
    /\ Cardinality({x \in Refs : refp'[x] # AbsentAll}) <= MaxRefProps

RootSeqs(d) == {<<r>> : r \in In(d)}
                 \cup (IF MaxCloneRoots >= 2
                       THEN {<<r1, r2>> : r1 \in In(d), r2 \in In(d)} ELSE {})

Next ==
    \/ \E d \in Doms : \E p \in In(d) \cup {Null} : \E b \in BuildersOf(Shapes) : Insert(d, p, b)
    \* (one representative choice of parent, colliding instance and missing referent: these steps add transitions,
    \*  not states - what they do to a DOM is a prefix of an Insert or nothing at all)
    \/ \E d \in Doms : \E b \in BuildersOf({<<0, 1>>}) : \E k \in {1, 2} :
          /\ In(d) # {}
          /\ LET c == CHOOSE x \in In(d) : \A y \in In(d) : x <= y IN InsertCollide(d, c, b, k, c)
    \/ \E d \in Doms : \E kind \in RootKinds : BadCall(kind, d, IF root[d] \in Refs THEN root[d] ELSE Null)
    \/ \E d \in Doms : \E kind \in MissingKinds :
          /\ Refs \ In(d) # {}
          /\ BadCall(kind, d, CHOOSE x \in Refs \ In(d) : \A y \in Refs \ In(d) : x <= y)
    \/ \E d \in Doms : \E r \in In(d) : Destroy(d, r)
    \/ \E d \in Doms : \E r \in In(d) : \E e \in Doms : \E p \in In(e) : Transfer(d, r, e, p)
    \/ \E d \in Doms : \E r \in In(d) : \E p \in In(d) : TransferWithin(d, r, p)
    \/ \E d \in Doms : \E r \in In(d) : Clone(d, <<r>>, d)                          \* clone_within
    \/ \E d \in Doms : \E e \in Doms \ {d} : \E rs \in RootSeqs(d) : Clone(d, rs, e) \* clone(_multiple)_into_external
    \/ \E r \in Live : \E s \in Slots : \E v \in (1..(nextRef - 1)) \cup {Null} : SetRef(r, s, v)

\* The model starts after WeakDom::new(single instance) for every DOM (referents 1..NumDoms);
\* New itself is exercised by the trace specification and the history enumeration.  A DOM in RootlessDoms
\* starts instead as WeakDom::default() followed by insert(Ref::none(), single instance): no root, one orphan
\* (which, unlike a root, may be destroyed or moved).
MCInit ==
    /\ owner  = [r \in Refs |-> IF r <= NumDoms THEN r ELSE NoDom]
    /\ parent = [r \in Refs |-> Null]
    /\ kids   = [r \in Refs |-> <<>>]
    /\ label  = [r \in Refs |-> IF r <= NumDoms THEN r ELSE NoLabel]
    /\ refp   = [r \in Refs |-> AbsentAll]
    /\ uid    = [r \in Refs |-> NoUid]
    /\ uidset = [d \in Doms |-> {}]
    /\ root   = [d \in Doms |-> IF d \in RootlessDoms THEN Rootless ELSE d]
    /\ nextRef = NumDoms + 1
    /\ seen   = {}

Spec == MCInit /\ [][Next]_vars

-----------------------------------------------------------------------------
(* C10: frame conditions, stated independently of the action definitions.    *)

\* an instance that exists before and after a step keeps its label
FrameLabel == [][\A r \in Refs : (owner[r] # NoDom /\ owner'[r] # NoDom) => label'[r] = label[r]]_vars

\* ... and its Ref properties, unless the step is a direct property write
FrameRefp == [][ \/ \E r \in Refs, s \in Slots, v \in Refs \cup {Null} : SetRefS(r, s, v)
                 \/ \A r \in Refs : (owner[r] # NoDom /\ owner'[r] # NoDom) => refp'[r] = refp[r] ]_vars

\* a referent that stopped existing never answers a lookup again; referents are never reused
DeadStaysDead == [][\A r \in Refs : (r < nextRef /\ owner[r] = NoDom) => owner'[r] = NoDom]_vars

\* a child list changes only by appending one element, removing one element, or moving one to the end
KidsFrame == [][\A x \in Refs : (owner[x] # NoDom /\ owner'[x] # NoDom) =>
                   \/ kids'[x] = kids[x]
                   \/ \E y \in Refs : \/ kids'[x] = Append(kids[x], y)
                                      \/ (y \in SeqSet(kids[x]) /\ kids'[x] = Without(kids[x], y))
                                      \/ (y \in SeqSet(kids[x]) /\ kids'[x] = Append(Without(kids[x], y), y)) ]_vars

\* transfer conserves the combined set of instances and moves exactly one subtree
TransferFrame ==
    [][\A d \in Doms, e \in Doms, r \in Refs, p \in Refs :
          TransferS(d, r, e, p) =>
             /\ Live' = Live
             /\ {x \in Refs : owner'[x] # owner[x]} = Desc(r)
             /\ \A x \in Desc(r) : owner'[x] = e
             /\ \A x \in Refs \ {r} : parent'[x] = parent[x]
             /\ \A x \in Refs \ {p, parent[r]} : kids'[x] = kids[x]
             /\ kids'[p] = Append(kids[p], r)
             /\ \A x \in Refs : uid'[x] # uid[x] => (x \in Desc(r) /\ uid[x] \in uidset[e]) ]_vars

DestroyFrame ==
    [][\A d \in Doms, r \in Refs :
          DestroyS(d, r) =>
             /\ Live' = Live \ Desc(r)
             /\ \A x \in Refs \ Desc(r) : owner'[x] = owner[x] /\ parent'[x] = parent[x]
             /\ \A x \in Refs \ (Desc(r) \cup {parent[r]}) : kids'[x] = kids[x] ]_vars

InsertFrame ==
    [][\A d \in Doms, p \in Refs \cup {Null}, b \in BuildersOf(Shapes) :
          InsertS(d, p, b) =>
             /\ Live' = Live \cup NewRange(Len(b))
             /\ \A x \in Refs : x < nextRef =>
                    owner'[x] = owner[x] /\ parent'[x] = parent[x] /\ uid'[x] = uid[x]
             /\ \A x \in Refs \ {p} : x < nextRef => kids'[x] = kids[x]
             /\ p # Null => kids'[p] = Append(kids[p], nextRef)
             /\ parent'[nextRef] = p ]_vars

\* C12: an id changes only for an instance that entered a DOM already holding that id
UidStable ==
    [][\A r \in Refs : (r < nextRef /\ owner'[r] # NoDom /\ uid'[r] # uid[r]) =>
          (owner'[r] # owner[r] /\ uid[r] \in uidset[owner'[r]]) ]_vars

-----------------------------------------------------------------------------
(* C11: clone = isomorphic copy, stated as "there is a bijection ..."        *)

CloneIso ==
    [][\A d \in Doms, e \in Doms : \A rs \in RootSeqs(d) :
          (DisjointRoots(rs) /\ CloneS(d, rs, e)) =>
             LET cloned == UNION {Desc(rs[i]) : i \in 1..Len(rs)}
                 new    == NewRange(Cardinality(cloned))
             IN
             /\ \A x \in Refs : x < nextRef =>        \* source (and everything else) untouched
                    /\ owner'[x] = owner[x] /\ parent'[x] = parent[x] /\ kids'[x] = kids[x]
                    /\ label'[x] = label[x] /\ refp'[x] = refp[x] /\ uid'[x] = uid[x]
             /\ \E f \in [cloned -> new] :
                    /\ \A a, b \in cloned : a # b => f[a] # f[b]
                    /\ \A o \in cloned :
                         /\ owner'[f[o]] = e
                         /\ label'[f[o]] = label[o]
                         /\ parent'[f[o]] = (IF o \in SeqSet(rs) THEN Null ELSE f[parent[o]])
                         /\ kids'[f[o]] = [k \in 1..Len(kids[o]) |-> f[kids[o][k]]]
                         /\ \A s \in Slots :
                              LET v == refp[o][s]  w == refp'[f[o]][s] IN
                              /\ v = Absent => w = Absent
                              /\ v = Null => w = Null
                              /\ v \in cloned => w = f[v]
                              /\ (v \in Refs \ cloned /\ owner[v] = e) => w = v
                              /\ (v \in Refs \ cloned /\ owner[v] # e) => w = Null ]_vars

\* whatever the roots (listed twice, one inside the other): the i-th returned referent heads a complete copy of
\* the i-th root's subtree - same labels, same child order - placed in the destination without a parent
RECURSIVE SameShape(_, _, _)
SameShape(o, c, e) ==
    /\ owner'[c] = e /\ label'[c] = label[o] /\ Len(kids'[c]) = Len(kids[o])
    /\ \A k \in 1..Len(kids[o]) : parent'[kids'[c][k]] = c /\ SameShape(kids[o][k], kids'[c][k], e)
CloneEachComplete ==
    [][\A d \in Doms, e \in Doms : \A rs \in RootSeqs(d) :
          CloneS(d, rs, e) => \A i \in 1..Len(rs) : parent'[NewRef(i)] = Null /\ SameShape(rs[i], NewRef(i), e)]_vars

-----------------------------------------------------------------------------
Bound == nextRef <= MaxRef + 1

=============================================================================

------------------------------- MODULE AttrMap -------------------------------
(***************************************************************************)
(* The in-memory API of rbx_types::Attributes (beyond the listed           *)
(* properties; the specification keeps growing with the system): a map     *)
(* from names to values with insert / remove / get / clear / len, ordered  *)
(* iteration, and drain - which yields entries in key order and leaves the *)
(* map EMPTY when dropped, however many entries were taken.                *)
(* Keys are byte strings; the order is the bytewise lexicographic order.   *)
(***************************************************************************)
EXTENDS Integers, Sequences, FiniteSets, TLC

CONSTANTS Keys,      \* set of byte strings (tuples of numbers)
          Values     \* set of values
None == -1

VARIABLE m           \* the map: a function from a subset of Keys to Values
vars == <<m>>

RECURSIVE LexLt(_, _)
LexLt(a, b) == IF b = <<>> THEN FALSE
               ELSE IF a = <<>> THEN TRUE
               ELSE IF a[1] < b[1] THEN TRUE
               ELSE IF a[1] > b[1] THEN FALSE
               ELSE LexLt(Tail(a), Tail(b))

\* the entries in iteration order
RECURSIVE Sorted(_)
Sorted(S) == IF S = {} THEN <<>>
             ELSE LET k == CHOOSE x \in S : \A y \in S : x = y \/ LexLt(x, y)
                  IN <<k>> \o Sorted(S \ {k})
Entries(f) == LET ks == Sorted(DOMAIN f) IN [i \in 1..Len(ks) |-> <<ks[i], f[ks[i]]>>]

Get(k) == IF k \in DOMAIN m THEN m[k] ELSE None

Insert(k, v) == m' = [x \in DOMAIN m \cup {k} |-> IF x = k THEN v ELSE m[x]]      \* returns Get(k)
Remove(k)    == m' = [x \in DOMAIN m \ {k} |-> m[x]]                                \* returns Get(k)
Clear        == m' = [x \in {} |-> 0]
\* drain().take(n): yields the first n entries; dropping the drain clears what is left
DrainTake(n) == m' = [x \in {} |-> 0]                                                \* returns SubSeq(Entries(m), 1, n)

Init == m = [x \in {} |-> 0]
Next == \/ \E k \in Keys, v \in Values : Insert(k, v)
        \/ \E k \in Keys : Remove(k)
        \/ Clear
        \/ \E n \in 0..Cardinality(Keys) : DrainTake(n)
Spec == Init /\ [][Next]_vars

\* iteration is strictly ascending and complete
IterationSorted == LET e == Entries(m) IN
    /\ Len(e) = Cardinality(DOMAIN m)
    /\ \A i \in 1..(Len(e) - 1) : LexLt(e[i][1], e[i + 1][1])
=============================================================================

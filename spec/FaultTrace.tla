------------------------------ MODULE FaultTrace ------------------------------
(***************************************************************************)
(* C13 on recorded executions: every fault case carries its outcome class  *)
(* (ok / err / panic / abort / timeout); this module states which classes  *)
(* the property allows for each kind of fault.                             *)
(***************************************************************************)
EXTENDS Integers, Sequences, FiniteSets, TLC, Json, IOUtils

Rec == ndJsonDeserialize(IOEnv.TRACE)
VARIABLE l
Ev == Rec[l]

Report(name) == PrintT(<<"CASEFAIL", ToJson([line |-> l, ep |-> Ev.ep, clause |-> name, issues |-> {}])>>)

Allowed ==
    CASE Ev.kind = "truncate" -> Ev.outcome = "err"                       \* every strict prefix is rejected
      [] Ev.kind = "whole"    -> Ev.outcome = "ok"
      [] Ev.kind = "schedule" -> Ev.outcome = Ev.whole_outcome /\ Ev.digest = Ev.whole_digest   \* delivery-independent
      [] Ev.kind = "sinkfail" -> Ev.outcome = "err"                       \* the sink's error is returned
      [] Ev.kind = "partial"  -> Ev.outcome = "ok" /\ Ev.digest = Ev.whole_digest   \* a sink may take fewer bytes per call
      [] Ev.kind \in {"mutate", "random", "depth", "structure"} -> Ev.outcome \in {"ok", "err"}   \* never panic / abort / hang
      [] OTHER -> FALSE

Step == /\ l <= Len(Rec)
        /\ (IF Allowed THEN TRUE ELSE Report(Ev.kind \o ":" \o Ev.outcome)) \in BOOLEAN
        /\ l' = l + 1
Finish == l = Len(Rec) + 1 /\ PrintT(<<"TRACE_DONE", Len(Rec)>>) /\ l' = l + 1
TraceSpec == l = 1 /\ [][Step \/ Finish]_l
=============================================================================

-------------------------- MODULE ForeignBinaryTrace --------------------------
(***************************************************************************)
(* C04: files produced by the foreign encoder from MCForeignBinary's       *)
(* abstract files.  For every file (i) the TLA+ decoder must read back the *)
(* logical forest - the encoder is held to docs/binary.md before anything  *)
(* is concluded from it - and (ii) the forest rbx_binary's reader produced *)
(* must be the forest the file describes.                                  *)
(***************************************************************************)
EXTENDS BinaryFormat

Rec == ndJsonDeserialize(IOEnv.TRACE)
VARIABLE l
Ev == Rec[l]

Report(name, issues) == PrintT(<<"CASEFAIL", ToJson([line |-> l, ep |-> Ev.ep, clause |-> name, issues |-> issues])>>)

ForeignFileOK(F) ==
    LET n == Len(F.chunks) IN
    /\ HeaderOK(F.header) /\ F.trailing = 0
    /\ \A i \in 1..n : FrameOK(F.chunks[i])
    /\ F.chunks[n].name = "END" /\ F.chunks[n].method = "none" /\ F.chunks[n].payload = EndMagic
    /\ Cardinality(ChunkIdx(F, "PRNT")) = 1
    /\ HeaderClasses(F.header) = Cardinality(ChunkIdx(F, "INST"))
    /\ HeaderInstances(F.header) = Cardinality(AllRefs(F))
    /\ \A i \in ChunkIdx(F, "INST") : Insts(F)[i].ok

CheckCase ==
    /\ IF "chunks" \in DOMAIN Ev.file /\ ForeignFileOK(Ev.file) THEN TRUE ELSE Report("encoder-structure", {})
    /\ ("chunks" \in DOMAIN Ev.file /\ ForeignFileOK(Ev.file)) =>
          LET iss == FileIssues(Ev.file, Ev.logical, "doc") IN
          IF iss = {} THEN TRUE ELSE Report("encoder-meaning", iss)
    /\ IF Ev.read = "ok" THEN TRUE ELSE Report("read", {})
    /\ Ev.read = "ok" =>
          LET iss == RoundTripIssues(Ev.after, Ev.expect) IN
          IF iss = {} THEN TRUE ELSE Report("decoded", iss)

Step == l <= Len(Rec) /\ CheckCase \in BOOLEAN /\ l' = l + 1
Finish == l = Len(Rec) + 1 /\ PrintT(<<"TRACE_DONE", Len(Rec)>>) /\ l' = l + 1
TraceSpec == l = 1 /\ [][Step \/ Finish]_l
=============================================================================

----------------------------- MODULE AttrMapTrace -----------------------------
EXTENDS AttrMap, Json, IOUtils
Rec == ndJsonDeserialize(IOEnv.TRACE)
VARIABLE l
Ev == Rec[l]
tvars == <<m, l>>

PostMatches == Entries(m') = Ev.post /\ Ev.len = Len(Ev.post)

Explain ==
    CASE Ev.op = "reset"  -> m' = [x \in {} |-> 0]
      [] Ev.op = "insert" -> Insert(Ev.k, Ev.v) /\ Ev.ret = Get(Ev.k) /\ PostMatches
      [] Ev.op = "remove" -> Remove(Ev.k) /\ Ev.ret = Get(Ev.k) /\ PostMatches
      [] Ev.op = "get"    -> UNCHANGED m /\ Ev.ret = Get(Ev.k) /\ PostMatches
      [] Ev.op = "clear"  -> Clear /\ PostMatches
      [] Ev.op = "drain"  -> DrainTake(Ev.n) /\ Ev.ret = SubSeq(Entries(m), 1, IF Ev.n <= Len(Entries(m)) THEN Ev.n ELSE Len(Entries(m))) /\ PostMatches
      [] OTHER -> FALSE

Match == l <= Len(Rec) /\ l' = l + 1 /\ Explain
Skip == /\ l <= Len(Rec) /\ ~ENABLED Match
        /\ PrintT(<<"MISMATCH", l, Ev.ep, Ev.op>>)
        /\ l' = (LET later == {j \in (l + 1)..Len(Rec) : Rec[j].op = "reset"} IN
                 IF later = {} THEN Len(Rec) + 1 ELSE CHOOSE j \in later : \A i \in later : j <= i)
        /\ UNCHANGED m
Finish == l = Len(Rec) + 1 /\ PrintT(<<"TRACE_DONE", Len(Rec)>>) /\ l' = l + 1 /\ UNCHANGED m
TraceSpec == Init /\ l = 1 /\ [][Match \/ Skip \/ Finish]_tvars
=============================================================================

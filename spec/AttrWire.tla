------------------------------ MODULE AttrWire ------------------------------
(***************************************************************************)
(* docs/attributes.md transcribed: the attribute blob is a little-endian   *)
(* count followed by (name, type id, value) entries.  DecodeAttrs is the   *)
(* independent decoder of property C14; values come out in the harness's   *)
(* projection (byte vectors), with the two conversions the format forces:  *)
(* a String has no wire type of its own (it returns as BinaryString) and a *)
(* colour keypoint's unused envelope is dropped.                           *)
(***************************************************************************)
EXTENDS BinaryWire

AF32(b, p) == Rev(b, p, 4)
AStr(b, p) == [v |-> Slice(b, p + 4, U32LE(b, p)), p |-> p + 4 + U32LE(b, p)]

RECURSIVE AF32s(_, _, _)
AF32s(b, p, n) == IF n = 0 THEN <<>> ELSE <<AF32(b, p)>> \o AF32s(b, p + 4, n - 1)

\* one value of the given type id at offset p: [ok, t, v, p]
AttrValue(id, b, p) ==
    CASE id = 2  -> LET s == AStr(b, p) IN [ok |-> TRUE, t |-> "BinaryString", v |-> s.v, p |-> s.p]
      [] id = 3  -> [ok |-> b[p] \in {0, 1}, t |-> "Bool", v |-> IF b[p] = 0 THEN 0 ELSE 1, p |-> p + 1]
      [] id = 4  -> [ok |-> TRUE, t |-> "Int32", v |-> Rev(b, p, 4), p |-> p + 4]
      [] id = 5  -> [ok |-> TRUE, t |-> "Float32", v |-> AF32(b, p), p |-> p + 4]
      [] id = 6  -> [ok |-> TRUE, t |-> "Float64", v |-> Rev(b, p, 8), p |-> p + 8]
      [] id = 9  -> [ok |-> TRUE, t |-> "UDim", v |-> <<AF32(b, p), Rev(b, p + 4, 4)>>, p |-> p + 8]
      [] id = 10 -> [ok |-> TRUE, t |-> "UDim2",
                     v |-> <<AF32(b, p), Rev(b, p + 4, 4), AF32(b, p + 8), Rev(b, p + 12, 4)>>, p |-> p + 16]
      [] id = 14 -> [ok |-> b[p + 3] = 0 /\ b[p + 2] = 0, t |-> "BrickColor", v |-> U16LE(b, p), p |-> p + 4]
      [] id = 15 -> [ok |-> TRUE, t |-> "Color3", v |-> AF32s(b, p, 3), p |-> p + 12]
      [] id = 16 -> [ok |-> TRUE, t |-> "Vector2", v |-> AF32s(b, p, 2), p |-> p + 8]
      [] id = 17 -> [ok |-> TRUE, t |-> "Vector3", v |-> AF32s(b, p, 3), p |-> p + 12]
      [] id = 20 -> LET rid == b[p + 12] IN
                    IF rid = 0
                    THEN [ok |-> TRUE, t |-> "CFrame", v |-> AF32s(b, p, 3) \o AF32s(b, p + 13, 9), p |-> p + 49]
                    ELSE [ok |-> rid \in BasicRotationIds, t |-> "CFrame", v |-> AF32s(b, p, 3) \o BasicRotation(rid), p |-> p + 13]
      [] id = 21 -> LET s == AStr(b, p) IN
                    [ok |-> TRUE, t |-> "EnumItem", v |-> <<s.v, Rev(b, s.p, 4)>>, p |-> s.p + 4]
      [] id = 23 -> LET n == U32LE(b, p) IN        \* keypoints: envelope, time, value
                    [ok |-> TRUE, t |-> "NumberSequence",
                     v |-> [k \in 1..n |-> <<AF32(b, p + 4 + 12 * (k - 1) + 4), AF32(b, p + 4 + 12 * (k - 1) + 8),
                                             AF32(b, p + 4 + 12 * (k - 1))>>],
                     p |-> p + 4 + 12 * n]
      [] id = 25 -> LET n == U32LE(b, p) IN        \* keypoints: (unused) envelope, time, r, g, b
                    [ok |-> TRUE, t |-> "ColorSequence",
                     v |-> [k \in 1..n |-> AF32s(b, p + 4 + 20 * (k - 1) + 4, 4)],
                     p |-> p + 4 + 20 * n]
      [] id = 27 -> [ok |-> TRUE, t |-> "NumberRange", v |-> AF32s(b, p, 2), p |-> p + 8]
      [] id = 28 -> [ok |-> TRUE, t |-> "Rect", v |-> AF32s(b, p, 4), p |-> p + 16]
      [] id = 33 -> LET fam == AStr(b, p + 3)  cf == AStr(b, fam.p) IN
                    [ok |-> TRUE, t |-> "Font",
                     v |-> <<fam.v, U16LE(b, p), b[p + 2], IF cf.v = <<>> THEN 0 ELSE 1, cf.v>>, p |-> cf.p]
      [] OTHER -> [ok |-> FALSE, t |-> "?", v |-> <<>>, p |-> p]

RECURSIVE AttrEntries(_, _, _)
AttrEntries(b, p, n) ==
    IF n = 0 THEN [ok |-> p = Len(b) + 1, v |-> <<>>]
    ELSE IF p + 4 > Len(b) + 1 THEN [ok |-> FALSE, v |-> <<>>]
    ELSE LET name == AStr(b, p) IN
         IF name.p > Len(b) THEN [ok |-> FALSE, v |-> <<>>]
         ELSE LET val  == AttrValue(b[name.p], b, name.p + 1)
                  rest == IF val.ok THEN AttrEntries(b, val.p, n - 1) ELSE [ok |-> FALSE, v |-> <<>>]
              IN [ok |-> val.ok /\ rest.ok, v |-> << <<name.v, [t |-> val.t, v |-> val.v]>> >> \o rest.v]

\* zero bytes decode to an empty map
DecodeAttrs(b) == IF b = <<>> THEN [ok |-> TRUE, v |-> <<>>]
                  ELSE IF Len(b) < 4 THEN [ok |-> FALSE, v |-> <<>>]
                  ELSE AttrEntries(b, 5, U32LE(b, 1))

\* worked examples of the document
ASSUME AttrValue(9, <<0, 0, 246, 66, 200, 1, 0, 0>>, 1).v = <<<<66, 246, 0, 0>>, <<0, 0, 1, 200>>>>
ASSUME AttrValue(10, <<0, 0, 128, 63, 2, 0, 0, 0, 0, 0, 64, 64, 4, 0, 0, 0>>, 1).v
          = <<<<63, 128, 0, 0>>, <<0, 0, 0, 2>>, <<64, 64, 0, 0>>, <<0, 0, 0, 4>>>>
ASSUME AttrValue(15, <<0, 0, 0, 0, 205, 204, 204, 62, 0, 0, 128, 63>>, 1).v = <<<<0, 0, 0, 0>>, <<62, 204, 204, 205>>, <<63, 128, 0, 0>>>>
ASSUME AttrValue(17, <<0, 0, 32, 65, 0, 0, 160, 65, 0, 0, 240, 65>>, 1).v = <<<<65, 32, 0, 0>>, <<65, 160, 0, 0>>, <<65, 240, 0, 0>>>>
ASSUME AttrValue(20, <<0, 0, 128, 63, 0, 0, 0, 64, 0, 0, 64, 64, 2>>, 1).v
          = <<<<63, 128, 0, 0>>, <<64, 0, 0, 0>>, <<64, 64, 0, 0>>>> \o BasicRotation(2)
ASSUME LET r == AttrValue(20, <<0, 0, 128, 63, 0, 0, 0, 64, 0, 0, 64, 64, 0, 243, 4, 53, 63, 0, 0, 0, 0, 243, 4, 53, 63, 0, 0, 0, 0,
                                0, 0, 128, 63, 0, 0, 0, 0, 243, 4, 53, 191, 0, 0, 0, 0, 243, 4, 53, 63>>, 1)
       IN r.p = 50 /\ r.v[4] = <<63, 53, 4, 243>> /\ r.v[6] = <<63, 53, 4, 243>> /\ r.v[10] = <<191, 53, 4, 243>> /\ r.v[8] = <<63, 128, 0, 0>>
ASSUME AttrValue(23, <<3, 0, 0, 0, 0, 0, 0, 0, 0, 0, 0, 0, 0, 0, 0, 0, 0, 0, 0, 0, 0, 0, 0, 63, 0, 0, 128, 63,
                       0, 0, 0, 63, 0, 0, 128, 63, 0, 0, 128, 63>>, 1).v
          = << <<Z4, Z4, Z4>>, <<<<63, 0, 0, 0>>, P1, Z4>>, <<P1, P1, <<63, 0, 0, 0>>>> >>
ASSUME AttrValue(27, <<0, 0, 160, 64, 0, 0, 32, 65>>, 1).v = <<<<64, 160, 0, 0>>, <<65, 32, 0, 0>>>>
ASSUME AttrValue(28, <<0, 0, 32, 65, 0, 0, 160, 65, 0, 0, 240, 65, 0, 0, 32, 66>>, 1).v
          = <<<<65, 32, 0, 0>>, <<65, 160, 0, 0>>, <<65, 240, 0, 0>>, <<66, 32, 0, 0>>>>
=============================================================================

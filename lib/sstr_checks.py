"""C18: SharedString.tla - model checking, schedule replay on real threads, stress snapshots."""
import json
import os
import random
import time

from common import (OUT, Report, ToolError, build_harness, coverage_zero_actions, episode_lines, log, rbxv,
                    replay_lines, tlc, tlc_violation, validate_trace, write_evidence)
from dom_checks import write_cfg

INVS = "TypeOK CountExact DataIntact Dedup EmptyAtQuiescence QuiescentExact EntryPointsToContent"


def consts(threads, contents, slots, maxops, rule="only_if_dead", maxbuf=None):
    return dict(NumThreads=threads, NumContents=contents, NumSlots=slots,
                MaxBuf=maxbuf or max(8, threads * maxops + 1), MaxOps=maxops, CleanupRule='"%s"' % rule)


def run(pid, tier, seed, replay=None):
    t0 = time.time()
    quick = tier == "quick"
    rep = Report(pid)
    build_harness()
    rng = random.Random(seed)
    mc_runs = []
    states = transitions = 0

    # ---- A: the design, every interleaving ------------------------------------------
    plans = [("t3o2", consts(3, 2, 2, 2), "Spec", INVS, "BufferImmutable", True)]
    plans.append(("live", consts(2, 1, 2, 2), "FairSpec", "", "WindowCloses", False))
    if not quick:
        plans.append(("t3o3", consts(3, 2, 2, 3), "Spec", INVS, "BufferImmutable", True))
        plans.append(("t4o2", consts(4, 1, 2, 2), "Spec", INVS, "", True))
    for name, c, spec, invs, props, deadlock in plans:
        cfg = os.path.join(OUT, "SharedString_%s.cfg" % name)
        write_cfg(cfg, spec, c, invariants=invs, properties=props)
        if deadlock:
            txt = open(cfg).read().replace("CHECK_DEADLOCK FALSE", "CHECK_DEADLOCK TRUE")
            open(cfg, "w").write(txt)
        r = tlc("SharedString", cfg, workers=12, timeout=3000, coverage=True, xmx="12g")
        v = tlc_violation(r)
        if v:
            rep.violation("spec|%s|%s" % (name, v[:60]), {"config": name, "tlc": r["out"][-6000:]},
                          "TLC on SharedString.tla: " + v)
        zero = [a for a in coverage_zero_actions(r["out"]) if a in ("New", "Clone", "DropRelease", "DropCleanup")]
        if zero:
            raise ToolError("vacuity: actions never taken in %s: %s" % (name, zero))
        states += r.get("distinct", 0)
        transitions += r.get("generated", 0)
        mc_runs.append({"config": name, "constants": c, "spec": spec, "distinct": r.get("distinct"),
                        "generated": r.get("generated"), "wall_s": round(r["wall"], 1)})
        log("[%s] TLC %s: %s distinct states, %.0fs" % (pid, name, r.get("distinct"), r["wall"]))

    # The defect the specification was written to expose stays visible: with the pre-fix clean-up rule
    # TLC must find the Dedup violation (guards against a spec edit that makes the invariant vacuous).
    cfg = os.path.join(OUT, "SharedString_prefix.cfg")
    write_cfg(cfg, "Spec", consts(3, 1, 2, 1, rule="unconditional"), invariants="Dedup")
    r = tlc("SharedString", cfg, workers=4, timeout=600)
    if "Invariant Dedup is violated" not in r["out"]:
        raise ToolError("sanity: Dedup is not violated under the unconditional clean-up rule; the invariant is vacuous")

    # ---- B: schedules from TLC on real threads ----------------------------------------
    sched_sets = [("2x2", 2, 2, 2, 2, 8000 if quick else None)]
    if not quick:
        sched_sets.append(("3x1", 3, 1, 2, 1, None))
        sched_sets.append(("3x2c1", 3, 1, 1, 2, 200000))
    total_eps = total_events = 0
    samples = []
    nontrivial = set()
    for name, th, co, sl, mo, cap in sched_sets:
        c = consts(th, co, sl, mo, maxbuf=8)
        cfg = os.path.join(OUT, "SharedStringHist_%s.cfg" % name)
        write_cfg(cfg, "HSpec", c, invariants="PrintHist")
        r = tlc("MCSharedStringHist", cfg, workers=8, timeout=3000, xmx="10g")
        if tlc_violation(r):
            raise ToolError("schedule enumeration failed: " + r["out"][-2000:])
        scheds = replay_lines(r["out"])
        n_all = len(scheds)
        if cap and len(scheds) > cap:
            rng.shuffle(scheds)
            scheds = scheds[:cap]
        ops_path = os.path.join(OUT, "%s_sched_%s.ndjson" % (pid, name))
        with open(ops_path, "w") as f:
            for i, h in enumerate(scheds):
                f.write(json.dumps({"ep": "sched:%s:%d" % (name, i), "ops": json.loads(h)}) + "\n")
        samples.append({"kind": "schedule %s (%d of %d maximal interleavings replayed)" % (name, len(scheds), n_all),
                        "ops": json.loads(scheds[len(scheds) // 3])})
        trace = os.path.join(OUT, "%s_sched_%s_trace.ndjson" % (pid, name))
        rbxv(["sstr-replay", "--threads", th, "--slots", sl, "--contents", co, "--maxbuf", 8],
             stdin_path=ops_path, stdout_path=trace, timeout=7200)
        tcfg = os.path.join(OUT, "SharedStringTrace_%s.cfg" % name)
        write_cfg(tcfg, "TraceSpec", c, invariants=INVS)
        res = validate_trace("SharedStringTrace", tcfg, trace)
        total_eps += res["episodes"]
        total_events += res["events"]
        collect(rep, res, trace)
        with open(trace) as f:
            for line in f:
                if '"pending":[0' in line and '"op":"new"' not in line:
                    continue
                e = json.loads(line)
                if e.get("post") and any(e["post"]["pending"]) and e["op"] in ("new", "clone", "release"):
                    nontrivial.add(hash(line.split('"post"')[1] + e["op"]))
        for p in (ops_path, trace):
            cleanup(p, rep)
        log("[%s] schedules %s: %d replayed, %d events validated" % (pid, name, len(scheds), res["events"]))

    # ---- C: free-running threads, barrier snapshots -----------------------------------
    runs = [(8, 3, 3, 40, 3000)] if quick else [(8, 3, 3, 400, 5000), (16, 2, 2, 300, 5000), (3, 2, 1, 400, 4000)]
    for k, (th, sl, co, rounds, ops) in enumerate(runs):
        trace = os.path.join(OUT, "%s_stress_%d.ndjson" % (pid, k))
        rbxv(["sstr-stress", "--threads", th, "--slots", sl, "--contents", co, "--seed", seed + k,
              "--rounds", rounds, "--ops", ops, "--pair-drops", 150000 if quick else 1500000], stdout_path=trace, timeout=3600)
        tcfg = os.path.join(OUT, "SharedStringTrace_stress%d.cfg" % k)
        c = consts(th, co, sl, 0, maxbuf=64)
        write_cfg(tcfg, "TraceSpec", c, invariants=INVS)
        res = validate_trace("SharedStringTrace", tcfg, trace, shards=1)
        total_eps += 1
        total_events += res["events"]
        collect(rep, res, trace)
        with open(trace) as f:
            lines = f.readlines()
        samples.append({"kind": "stress snapshot (%d threads, %d rounds x %d ops)" % (th, rounds, ops),
                        "event": json.loads(lines[len(lines) // 2])["post"]["slot"]})
        cleanup(trace, rep)

    rc = rep.finish()
    cov = {"states": states, "transitions": transitions, "traces_validated_against_impl": total_eps,
           "samples": samples, "events_validated": total_events, "evaluations": total_events,
           "distinct_nontrivial": len(nontrivial),
           "rule": "distinct logged (action, full projected state) pairs of new/clone/release executed while another thread was parked inside the release->clean-up window",
           "model_checking_runs": mc_runs,
           "explanation": "A: TLC checks SharedString.tla for all interleavings (invariants, deadlock freedom, liveness of the window "
                          "under weak fairness); B: every maximal interleaving printed by TLC (sampled in the quick tier) is executed by "
                          "real threads parked by hook H1 and each step is validated against the spec action with the complete table state; "
                          "C: free-running threads, each barrier snapshot must satisfy all invariants."}
    write_evidence(pid, tier, seed, "model_checking", cov, time.time() - t0, len(rep.violations),
                   ["hook H1 parks a dropping thread exactly between Arc::into_inner and the table lock",
                    "buffer identity is the Arc allocation address while any handle or table entry refers to it",
                    "schedules are exhaustive only for the stated thread/op/content bounds"])
    return rc


def collect(rep, res, trace):
    for shard, text, tail in res["violations"]:
        rep.violation("trace-invariant|%s" % text[:80], {"trace": shard, "tlc": tail}, text)
    for m in res["mismatches"]:
        shard, line, ep, op = m[0], m[1], m[2], m[3]
        outcome = m[4] if len(m) > 4 else "-"
        rep.violation("mismatch|%s|%s" % (op, outcome),
                      lambda shard=shard, ep=ep, op=op: {
                          "episode": ep, "rejected_op": op,
                          "events": [json.loads(x) for x in episode_lines(shard, ep)][:60]},
                      "real SharedString diverged from SharedString.tla at %s (%s) in %s" % (op, outcome, ep))


def cleanup(p, rep):
    for q in [p] + [p + ".shard%d" % i for i in range(32)]:
        if os.path.exists(q) and not rep.violations:
            os.remove(q)

"""C09-C12: WeakDom.tla model checking (A), history replay (B) and trace validation (C)."""
import json
import os
import re
import random
import time

from common import (OUT, Report, ToolError, build_harness, coverage_zero_actions, episode_lines,
                    log, rbxv, replay_lines, tlc, tlc_violation, validate_trace, write_evidence)

INVS = "TypeOK WellFormed WalkOK UidDistinct UidSetExact UidSeen"
PROPS = "FrameLabel FrameRefp DeadStaysDead KidsFrame TransferFrame DestroyFrame InsertFrame UidStable CloneIso CloneEachComplete"


def write_cfg(path, spec, consts, invariants="", properties="", constraint=""):
    with open(path, "w") as f:
        f.write("SPECIFICATION %s\nCONSTANTS\n" % spec)
        if "MaxCloneRoots" in consts:
            consts = dict(consts)
            consts.setdefault("RootlessDoms", "{}")
        for k, v in consts.items():
            f.write("  %s = %s\n" % (k, v))
        if constraint:
            f.write("CONSTRAINT %s\n" % constraint)
        if invariants:
            f.write("INVARIANTS %s\n" % invariants)
        if properties:
            f.write("PROPERTIES %s\n" % properties)
        f.write("CHECK_DEADLOCK FALSE\n")


MC = {
    # name: (MaxRef, BUids, MaxUid, MaxRefProps, with action properties)
    "struct5": dict(MaxRef=5, BUids="{}", MaxUid=1, MaxRefProps=0),
    "struct6": dict(MaxRef=6, BUids="{}", MaxUid=1, MaxRefProps=0),
    "uid4": dict(MaxRef=4, BUids="{1, 2}", MaxUid=8, MaxRefProps=0),
    "uid5": dict(MaxRef=5, BUids="{1}", MaxUid=8, MaxRefProps=0),
    "uid5b": dict(MaxRef=5, BUids="{1, 2}", MaxUid=9, MaxRefProps=0),
    "ref4": dict(MaxRef=4, BUids="{}", MaxUid=1, MaxRefProps=1),
    "ref5": dict(MaxRef=5, BUids="{}", MaxUid=1, MaxRefProps=1),
    "ref5b": dict(MaxRef=5, BUids="{}", MaxUid=1, MaxRefProps=2),
    # DOM 2 made by WeakDom::default(): no root, its first instance an orphan
    "rootless4": dict(MaxRef=4, BUids="{}", MaxUid=1, MaxRefProps=1, RootlessDoms="{2}"),
    "rootless5": dict(MaxRef=5, BUids="{}", MaxUid=1, MaxRefProps=0, RootlessDoms="{2}"),
    "rootless4b": dict(MaxRef=4, BUids="{}", MaxUid=1, MaxRefProps=2, RootlessDoms="{2}"),
}

# which properties claim which kinds of rejected trace lines
def claims(pid, op, kind, wf):
    if op in ("hang", "driver_panic"):
        # a DOM call that did not return within 20 s / a DOM so damaged that the driver's own walks panic,
        # whichever property is being checked
        return True
    if pid == "C09":
        return wf == "illformed" or op in ("walk", "transfer_within_bad", "insert_collide") or \
            (kind == "struct" and op in ("destroy", "transfer"))
    if pid == "C10":
        return kind == "struct" and op in ("new", "insert", "insert_collide", "destroy", "transfer", "transfer_within", "setref")
    if pid == "C11":
        return op == "clone" and kind in ("struct", "uid-presence")
    if pid == "C12":
        return kind.startswith("uid") or op in ("decoded", "reserve")
    return False


def model_check(name, props, workers, timeout=3000):
    c = MC[name]
    cfg = os.path.join(OUT, "MCWeakDom_%s.cfg" % name)
    consts = dict(MaxRef=c["MaxRef"], NumDoms=2, NumSlots=1, MaxUid=c["MaxUid"], BUids=c["BUids"],
                  MaxRefProps=c["MaxRefProps"], MaxCloneRoots=2, RootlessDoms=c.get("RootlessDoms", "{}"))
    write_cfg(cfg, "Spec", consts, invariants=INVS, properties=props)
    r = tlc("MCWeakDom", cfg, workers=workers, timeout=timeout, coverage=True, xmx="12g")
    return r


def histories(hist_len, seed, workers=8, max_ref=14):
    """All histories of exactly hist_len calls after DOM creation (TLC breadth-first)."""
    cfg = os.path.join(OUT, "MCWeakDomHist_%d.cfg" % hist_len)
    consts = dict(MaxRef=max_ref, NumDoms=2, NumSlots=1, MaxUid=40, BUids="{1, 2, 3}", MaxRefProps=4,
                  MaxCloneRoots=2, HistLen=hist_len)
    write_cfg(cfg, "HSpec", consts, invariants="PrintHist")
    r = tlc("MCWeakDomHist", cfg, workers=workers, timeout=1800 if hist_len <= 2 else 9000, xmx="8g")
    v = tlc_violation(r)
    if v:
        raise ToolError("history enumeration reported: " + v)
    return replay_lines(r["out"]), r


def simulated_histories(hist_len, seed, total, procs=8):
    """Long behaviours of the specification sampled by `tlc -simulate` (several seeds in parallel).
    TLC evaluates the printing invariant on every successor of the last step, so lines are grouped
    by their common prefix and one is kept per behaviour."""
    import concurrent.futures as cf
    cfg = os.path.join(OUT, "MCWeakDomHist_sim%d.cfg" % hist_len)
    consts = dict(MaxRef=20, NumDoms=2, NumSlots=1, MaxUid=60, BUids="{1, 2, 3}", MaxRefProps=4,
                  MaxCloneRoots=2, HistLen=hist_len)
    write_cfg(cfg, "HSpec", consts, invariants="PrintHist")
    per = max(1, total // procs)
    rng = random.Random(seed)

    def one(i):
        r = tlc("MCWeakDomHist", cfg, workers=1, timeout=1500, xmx="2g", simulate=per, depth=hist_len + 1,
                seed=seed * 1000 + i)
        groups = {}
        for line in replay_lines(r["out"]):
            ops = json.loads(line)
            groups.setdefault(json.dumps(ops[:-1]), []).append(line)
        return [g for g in groups.values()]

    out = []
    with cf.ThreadPoolExecutor(max_workers=procs) as ex:
        for groups in ex.map(one, range(procs)):
            for g in groups:
                out.append(rng.choice(g))
    return out


def run(pid, tier, seed, replay=None):
    t0 = time.time()
    quick = tier == "quick"
    rep = Report(pid)
    build_harness()
    rng = random.Random(seed)
    workers = 12

    # ---- A: model checking of the specification --------------------------------------
    mc_plan = {
        "C09": (["struct5"], ["struct6", "rootless5"]),
        "C10": (["struct5", "ref4"], ["struct6", "ref5", "rootless5"]),
        "C11": (["ref4", "rootless4"], ["ref5", "ref5b", "rootless4b"]),
        "C12": (["uid4"], ["uid5", "uid5b"]),
    }[pid]
    states = transitions = 0
    mc_runs = []
    for name in (mc_plan[0] if quick else mc_plan[0] + mc_plan[1]):
        # the action properties are checked on the 4- and 5-referent configurations; the large ones (6 referents, and
        # the rootless one, whose orphan can be destroyed and moved) check the invariants
        # the quick configurations are checked with the action properties in both tiers; the larger configurations the
        # thorough tier adds check the invariants (with the action properties a 5-referent configuration with Ref
        # properties does not finish within an hour on a busy machine)
        with_props = PROPS if name in mc_plan[0] else ""
        r = model_check(name, with_props, workers, timeout=3000 if quick else 14400)
        v = tlc_violation(r)
        if v:
            rep.violation("spec|%s|%s" % (name, v.split(" is violated")[0]), {"config": name, "tlc": r["out"][-6000:]},
                          "TLC on the specification: " + v)
        zero = [a for a in coverage_zero_actions(r["out"]) if a in
                ("Insert", "Destroy", "Transfer", "TransferWithin", "Clone")]
        if zero:
            raise ToolError("vacuity: actions never taken in %s: %s" % (name, zero))
        states += r.get("distinct", 0)
        transitions += r.get("generated", 0)
        mc_runs.append({"config": name, "constants": MC[name], "distinct": r.get("distinct"),
                        "generated": r.get("generated"), "depth": r.get("depth"),
                        "action_properties": bool(with_props), "wall_s": round(r["wall"], 1)})
        log("[%s] TLC %s: %s distinct states, %s generated, %.0fs" % (pid, name, r.get("distinct"), r.get("generated"), r["wall"]))

    # ---- B: histories chosen by TLC, executed on the real code -----------------------
    ops_path = os.path.join(OUT, "%s_hist_ops.ndjson" % pid)
    hists, hr = histories(2, seed)
    n_exh = len(hists)
    sims = simulated_histories(10, seed, 32) if quick else simulated_histories(14, seed, 640, procs=14)
    if not quick:
        h3, _ = histories(3, seed)
        rng.shuffle(h3)
        keep = 150000
        n_h3 = len(h3)
        hists += h3[:keep]
    samples = []
    with open(ops_path, "w") as f:
        for i, h in enumerate(hists):
            f.write(json.dumps({"ep": "hist:%d" % i, "ops": json.loads(h)}) + "\n")
        for i, h in enumerate(sims):
            f.write(json.dumps({"ep": "sim:%d:%d" % (seed, i), "ops": json.loads(h)}) + "\n")
    if hists:
        samples.append({"kind": "exhaustive history (TLC)", "ops": json.loads(hists[len(hists) // 2])[2:]})
    if sims:
        samples.append({"kind": "simulated history (TLC -simulate)", "ops": json.loads(sims[0])[2:][:6]})
    trace_b = os.path.join(OUT, "%s_hist_trace.ndjson" % pid)
    rbxv(["dom-run", "--maxref", 20, "--slots", 1], stdin_path=ops_path, stdout_path=trace_b)

    # ---- C: seeded random driver on the real code -------------------------------------
    trace_c = os.path.join(OUT, "%s_drive_trace.ndjson" % pid)
    episodes, steps = (150, 60) if quick else (6000, 80)
    rbxv(["dom-drive", "--seed", seed, "--episodes", episodes, "--steps", steps, "--maxref", 20, "--slots", 1],
         stdout_path=trace_c)

    # the same driver with three Ref properties per instance (null, inside and outside targets side by side)
    trace_c3 = os.path.join(OUT, "%s_drive3_trace.ndjson" % pid)
    rbxv(["dom-drive", "--seed", seed + 17, "--episodes", max(40, episodes // 3), "--steps", steps, "--maxref", 20, "--slots", 3],
         stdout_path=trace_c3)

    # and a few long episodes over many instances (child lists of dozens, capacity doublings on the way)
    trace_big = os.path.join(OUT, "%s_drive_big_trace.ndjson" % pid)
    rbxv(["dom-drive", "--seed", seed + 31, "--episodes", 10 if quick else 300, "--steps", 220, "--maxref", 90, "--slots", 1],
         stdout_path=trace_big)

    traces = [trace_b, trace_c, trace_c3, trace_big]
    trace_deep = None
    if pid == "C09":
        # one episode with a chain of 520 instances: moves of the top of the chain under instances hundreds of levels
        # below it must be refused (the walk up the ancestors has no depth limit), then a legal move of the bottom
        n_deep = 520
        node = lambda pi, label: {"pi": pi, "label": label, "refp": [-1], "uid": 0}
        dops = [{"op": "new", "d": 1, "b": [node(0, 1)]}, {"op": "new", "d": 2, "b": [node(0, 2)]},
                {"op": "insert", "d": 1, "p": 1, "b": [node(0, 100)] + [node(i, 100 + i) for i in range(1, n_deep)]},
                {"op": "transfer_within_bad", "d": 1, "r": 3, "p": n_deep + 2},
                {"op": "transfer_within_bad", "d": 1, "r": 3, "p": 3 + 513},
                {"op": "transfer_within_bad", "d": 1, "r": 4, "p": 4 + 300},
                {"op": "transfer_within", "d": 1, "r": n_deep + 2, "p": 1}]
        deep_ops = os.path.join(OUT, "%s_deep_ops.ndjson" % pid)
        with open(deep_ops, "w") as f:
            f.write(json.dumps({"ep": "deep:1", "ops": dops}) + "\n")
        trace_deep = os.path.join(OUT, "%s_deep_trace.ndjson" % pid)
        rbxv(["dom-run", "--maxref", n_deep + 10, "--slots", 1], stdin_path=deep_ops, stdout_path=trace_deep)
        os.remove(deep_ops)
        traces.append(trace_deep)
    if pid == "C12":
        # reader paths: DOMs produced by the binary and XML readers from files with duplicate UniqueIds
        trace_d = os.path.join(OUT, "%s_decoded_trace.ndjson" % pid)
        rbxv(["dom-decoded", "--seed", seed, "--episodes", 80 if quick else 3000, "--steps", 12, "--maxref", 20],
             stdout_path=trace_d)
        traces.append(trace_d)
    cfg = os.path.join(OUT, "WeakDomTrace.cfg")
    write_cfg(cfg, "TraceSpec", dict(MaxRef=20, NumDoms=2, NumSlots=1),
              invariants="WellFormed UidDistinct UidSetExact UidSeen")
    cfg_big = os.path.join(OUT, "WeakDomTraceBig.cfg")
    write_cfg(cfg_big, "TraceSpec", dict(MaxRef=90, NumDoms=2, NumSlots=1),
              invariants="WellFormed UidDistinct UidSetExact UidSeen")
    cfg_deep = os.path.join(OUT, "WeakDomTraceDeep.cfg")
    write_cfg(cfg_deep, "TraceSpec", dict(MaxRef=530, NumDoms=2, NumSlots=1),
              invariants="WellFormed UidDistinct UidSetExact UidSeen")
    cfg3 = os.path.join(OUT, "WeakDomTrace3.cfg")
    write_cfg(cfg3, "TraceSpec", dict(MaxRef=20, NumDoms=2, NumSlots=3),
              invariants="WellFormed UidDistinct UidSetExact UidSeen")
    total_events = total_eps = 0
    nontrivial = set()
    others = 0
    for trace in traces:
        res = validate_trace("WeakDomTrace", cfg3 if trace == trace_c3 else cfg_big if trace == trace_big else cfg_deep if trace == trace_deep else cfg, trace)
        total_events += res["events"]
        total_eps += res["episodes"]
        for shard, text, tail in res["violations"]:
            rep.violation("trace-invariant|%s" % text, {"trace": shard, "tlc": tail}, text)
        for shard, line, ep, op, kind, wf in res["mismatches"]:
            if claims(pid, op, kind, wf):
                opsig = op
                if op == "decoded":
                    opsig = "decoded-" + (ep.split(":")[1] if ":" in ep else "?")
                rep.violation("mismatch|%s|%s|%s" % (opsig, kind, wf),
                              lambda shard=shard, ep=ep, op=op, kind=kind, wf=wf: {
                                  "episode": ep, "rejected_op": op, "kind": kind, "wellformed": wf,
                                  "events": [json.loads(x) for x in episode_lines(shard, ep)][:60]},
                              "real WeakDom diverged from WeakDom.tla at op %s (%s, %s) in episode %s" % (op, kind, wf, ep))
            else:
                others += 1
        # count distinct non-trivial steps (measured on the logged events)
        with open(trace) as f:
            for line in f:
                if '"post"' not in line:
                    continue
                e = json.loads(line)
                if nontrivial_step(pid, e):
                    key = json.dumps([e["op"], e.get("d"), e.get("r"), e.get("p"), e.get("e"), e.get("rs"),
                                      e.get("b"), e["post"]["kids"], e["post"]["uid"]], sort_keys=True)
                    nontrivial.add(hash(key))
    uid_cov = None
    if pid == "C12":
        uid_cov = uid_generator(rep, quick, seed)
        states += uid_cov["states"]
        transitions += uid_cov["transitions"]
        total_eps += 1
        total_events += uid_cov["events"]
    if others:
        log("[%s] note: %d rejected trace lines belong to a sibling property's check" % (pid, others))

    for p in [ops_path] + traces:
        for q in [p] + [p + ".shard%d" % i for i in range(32)]:
            if os.path.exists(q) and not rep.violations:
                os.remove(q)

    with open(os.path.join(OUT, "%s_last_samples.json" % pid), "w") as f:
        json.dump(samples, f)
    rc = rep.finish()
    cov = {
        "states": states, "transitions": transitions,
        "traces_validated_against_impl": total_eps,
        "samples": samples,
        "events_validated": total_events,
        "exhaustive_histories_len2": n_exh,
        "simulated_histories": len(sims),
        "random_driver_episodes": episodes,
        "evaluations": total_events,
        "distinct_nontrivial": len(nontrivial),
        "rule": NONTRIVIAL_RULE[pid],
        "model_checking_runs": mc_runs,
        "exhaustive": False,
        "explanation": "A: TLC exhaustively checks WeakDom.tla (invariants + action properties) for the listed constants; "
                       "B: every history of 2 calls after DOM creation (all arguments, 12 builder variants) plus TLC-simulated "
                       "long histories are executed on real WeakDoms; C: seeded random driver. Every logged call is validated "
                       "by WeakDomTrace.tla (structure recomputed by the spec action, UniqueIds judged by UidRule).",
    }
    if uid_cov:
        cov["unique_id_generator"] = uid_cov
    if not quick:
        cov["exhaustive_histories_len3_total"] = n_h3
        cov["exhaustive_histories_len3_replayed"] = min(n_h3, 150000)
    write_evidence(pid, tier, seed, "model_checking", cov, time.time() - t0, len(rep.violations),
                   ["TLC explores the specification only within the stated constants",
                    "the harness projection (harness/src/dom.rs: project) is trusted to report the public API state faithfully",
                    "fresh UniqueIds are identified by first sight; UniqueId::now() is assumed not to collide with builder-supplied ids"])
    return rc


NONTRIVIAL_RULE = {
    "C09": "logged mutating calls (distinct by arguments and post-state) after which some DOM has depth >= 2 or a parentless non-root instance",
    "C10": "logged insert/destroy/transfer/transfer_within calls (distinct by arguments and post-state) where the touched parent has >= 2 children or the moved/inserted subtree has >= 2 nodes",
    "C11": "logged clone calls (distinct by arguments and post-state) whose cloned set has >= 2 instances or carries a Ref property",
    "C12": "logged calls (distinct by arguments and post-state) in which at least one instance carrying a UniqueId enters or leaves a DOM",
}


def nontrivial_step(pid, e):
    op = e["op"]
    post = e["post"]
    if pid == "C09":
        par = post["parent"]
        deep = any(p > 0 and par[p - 1] > 0 for p in par)
        orphan = any(o > 0 and par[i] == 0 and (i + 1) not in post["root"] for i, o in enumerate(post["owner"]))
        return op not in ("reset", "walk") and (deep or orphan)
    if pid == "C10":
        if op not in ("insert", "destroy", "transfer", "transfer_within"):
            return False
        if op == "insert":
            return len(e["b"]) >= 2 or (e["p"] > 0 and len(post["kids"][e["p"] - 1]) >= 2)
        p = e.get("p", 0)
        return (p > 0 and len(post["kids"][p - 1]) >= 2) or len(post["kids"][e["r"] - 1]) >= 1
    if pid == "C11":
        if op != "clone" or e.get("outcome") != "ok":
            return False
        ret = e.get("ret", [])
        return any(len(post["kids"][r - 1]) >= 1 for r in ret if r > 0) or len(ret) >= 2 or \
            any(post["refp"][r - 1][0] != -1 for r in ret if r > 0)
    if pid == "C12":
        if op == "insert" or op == "new":
            return any(n["uid"] != 0 for n in e["b"])
        if op in ("clone", "transfer", "destroy"):
            return any(u != 0 for u in post["uid"])
        return False
    return False


def uid_generator(rep, quick, seed):
    """UniqueIdGen.tla: all interleavings of concurrent now() calls (A) and a real multi-thread run (C)."""
    out = {"states": 0, "transitions": 0}
    cfg = os.path.join(OUT, "UniqueIdGen.cfg")
    c = dict(NumThreads=3, MaxCalls=(3 if quick else 4), Modulus=16, Impl='"fetch_add"')
    write_cfg(cfg, "Spec", c, invariants="Distinct Increasing")
    r = tlc("UniqueIdGen", cfg, workers=8, timeout=1200)
    v = tlc_violation(r)
    if v:
        rep.violation("spec|UniqueIdGen|" + v[:60], {"tlc": r["out"][-4000:]}, v)
    out["states"] += r.get("distinct", 0)
    out["transitions"] += r.get("generated", 0)
    # wrap-around bound stated explicitly: with Modulus below the number of calls ids do repeat
    c2 = dict(NumThreads=2, MaxCalls=3, Modulus=4, Impl='"fetch_add"')
    write_cfg(cfg, "Spec", c2, invariants="Distinct")
    r2 = tlc("UniqueIdGen", cfg, workers=2, timeout=600)
    if tlc_violation(r2):
        rep.violation("spec|UniqueIdGen|wrap", {"tlc": r2["out"][-4000:]}, "Distinct fails below the wrap-around bound")
    # sanity: the non-atomic variant must be caught by TLC
    c3 = dict(NumThreads=2, MaxCalls=2, Modulus=16, Impl='"load_store"')
    write_cfg(cfg, "Spec", c3, invariants="Distinct")
    r3 = tlc("UniqueIdGen", cfg, workers=2, timeout=600)
    if "Invariant Distinct is violated" not in r3["out"]:
        raise ToolError("sanity: load/store variant of the counter not caught by TLC")
    # unbounded companion, machine-checked by TLAPS: for any number of threads and calls (no wrap) the index
    # handed out by the atomic fetch_add is fresh (spec/proofs/UniqueIdGenProof.tla)
    import subprocess
    pdir = os.path.join(os.path.dirname(os.path.dirname(os.path.abspath(__file__))), "spec", "proofs")
    pr = subprocess.run(["timeout", "600", "tlapm", "--threads", "4", "--cleanfp", "UniqueIdGenProof.tla"], cwd=pdir,
                        stdout=subprocess.PIPE, stderr=subprocess.STDOUT, text=True)
    m = re.search(r"All (\d+) obligations? proved", pr.stdout)
    if not m:
        if re.search(r"obligations? failed", pr.stdout):
            rep.violation("proof|UniqueIdGenProof", {"tlapm": pr.stdout[-3000:]}, "TLAPS could not prove UniqueIdGenProof.tla")
        else:
            raise ToolError("tlapm did not finish on UniqueIdGenProof.tla:\n" + pr.stdout[-2000:])
    out["tlaps_obligations"] = int(m.group(1)) if m else 0
    # identity of ids: ==, hashing, sets and the DOM's notion of a collision over a structured family of id pairs
    from bin_checks import validate_cases
    ptrace = os.path.join(OUT, "C12_uid_pairs.ndjson")
    rbxv(["uid-pairs"], stdout_path=ptrace)
    npairs, pfails = validate_cases("UidPairTrace", ptrace, {})
    for c in pfails:
        rep.violation("uidpair|%s" % c["clause"], lambda c=c: {"case": c}, "%s: clause %s failed" % (c["ep"], c["clause"]))
    out["id_pairs"] = npairs
    if not rep.violations and os.path.exists(ptrace):
        os.remove(ptrace)
    threads, calls = (8, 4000) if quick else (16, 10000)
    trace = os.path.join(OUT, "C12_uid_trace.ndjson")
    rbxv(["uid-stress", "--threads", threads, "--calls", calls], stdout_path=trace)
    tcfg = os.path.join(OUT, "UniqueIdGenTrace.cfg")
    write_cfg(tcfg, "TraceSpec", dict(NumThreads=threads, MaxCalls=calls, Modulus=2000000000, Impl='"fetch_add"'))
    res = validate_trace("UniqueIdGenTrace", tcfg, trace, shards=1, timeout=3000)
    for m in res["mismatches"]:
        ev = [json.loads(x) for x in open(trace).readlines()[max(0, m[1] - 4):m[1] + 2]]
        rep.violation("uidgen|mismatch", {"line": m[1], "events": ev},
                      "concurrent UniqueId::now() calls are not a behaviour of UniqueIdGen.tla (line %d)" % m[1])
    for shard, text, tail in res["violations"]:
        rep.violation("uidgen|" + text[:60], {"tlc": tail}, text)
    out["events"] = res["events"]
    out["threads"] = threads
    out["calls_per_thread"] = calls
    if not rep.violations and os.path.exists(trace):
        os.remove(trace)
    return out

#!/usr/bin/env python3
"""Regenerates MANIFEST.json from the table below (single source of truth for the interface)."""
import json
import os
import subprocess

HERE = os.path.dirname(os.path.dirname(os.path.abspath(__file__)))

CHECKS = {
    "C09": dict(level="model_checking", ref="§4 C09, §2.3",
                text="TLC exhaustively checks WeakDom.tla (WellFormed, NoCycle, walk contract) for small constants; every 2-call history and TLC-simulated long histories are executed on real WeakDoms and, with a seeded random driver, validated line by line against the specification by WeakDomTrace.tla.",
                note="Trusted: TLC, the harness projection of public API state, the bounded constants of the model. Histories beyond the enumerated lengths are sampled, not exhausted. Rootless DOMs (WeakDom::default()), builders whose referent is already in the DOM (documented panic, partial insertion) and the calls the documentation promises to refuse (BadCall) are actions of the specification and are driven too.",
                technique="TLA+ spec WeakDom.tla + TLC model checking + spec-to-impl history replay + trace validation (WeakDomTrace.tla)"),
    "C10": dict(level="model_checking", ref="§4 C10, §2.3",
                text="Each WeakDom call is one action of WeakDom.tla whose structural post-state is computed by the spec and compared with the real post-state after every call; frame conditions are also checked as TLC action properties on the spec.",
                note="Same trusted base as C09; comparison covers referents, parent, sibling position, name, class and properties of every instance in every DOM. The refused calls (root destroyed / moved, instance not in the DOM) and the colliding insert must leave every DOM exactly as the specification says.",
                technique="TLA+ action properties (TLC) + exact post-state trace validation against WeakDom.tla"),
    "C11": dict(level="model_checking", ref="§4 C11, §2.3",
                text="Clone actions of WeakDom.tla (three-way Ref rule) are model-checked against an independent 'exists a bijection' statement (CloneIso) and every real clone call in replayed/driven histories is validated against the action.",
                note="Same trusted base as C09. Root lists with repeated or nested roots are modelled too (queue discipline, CloneEachComplete); for an instance copied twice in one call the specification records what the code does (only the copy recorded last has its Refs rewritten). Destinations include rootless DOMs (WeakDom::default()) that already hold earlier copies and transferred instances.",
                technique="TLA+ CloneIso action property (TLC) + trace validation of real clone calls"),
    "C12": dict(level="model_checking", ref="§4 C12, §2.3, §2.4",
                text="UidRule (relation form of inner_insert/inner_remove) is model-checked for UidDistinct/UidSetExact/UidStable; real histories with colliding ids are validated with the bookkeeping set exposed by hook H2.",
                note="Trusted: hook H2 returns the real bookkeeping set; fresh ids recognised by first sight. UidPairTrace.tla judges the identity of ids itself (==, hashing, sets, the DOM's collision decision) over a structured family of id pairs.",
                technique="TLA+ UidRule relation + TLC + trace validation with hook-exposed bookkeeping set"),
    "C01": dict(level="model_checking", ref="§4 C01, §2.5",
                text="Every generated forest is written by rbx_binary under the three compression modes and read back; TLC evaluates RoundTripIssues (BinaryFormat.tla) = {} on the logged before/after forests, with the permitted normalisations (BinaryString for unknown string blobs, 8-bit colour quantisation as a relation on bit patterns, epsilon rotation snapping, gained defaults) written as TLA+ operators over byte-vector values and the reflection database loaded as a constant.",
                note="Value spaces are sampled (boundary tables + random bits); zstd/lz4 are trusted third-party code; the database export and the forest projection are trusted. Besides the sampled plans a written-out sweep (`boundary`) places the edge values of every type under a known spelling, an alias and an unknown class on every run.",
                technique="TLA+ specification of the binary format's meaning (BinaryFormat.tla, Reflection.tla) + trace validation of logged write/read cases"),
    "C02": dict(level="model_checking", ref="§4 C02/C05, §2.6",
                text="Generated forests are written by rbx_xml (default options for database properties, WriteUnknown+ReadUnknown and NoReflection+NoReflection for unknown ones) and read back; TLC evaluates XmlRoundTripIssues (XmlFormat.tla) = {} on the logged forests: canonical names through Reflection.tla, floats bit-exact (NaN as a class), the documented XML normalisations (BrickColor->Int32, Tags/Attributes/MaterialColors->BinaryString for unknown properties, colour quantisation), references and SharedStrings restored.",
                note="The lexical layer is exercised through real text but judged only via the values that come back; values are sampled. Content object references are a recorded finding (writer panics). A written-out `boundary` sweep (edge values of every type) and a `bigvalues` plan (values of more than a mebibyte; byte strings over 8 KiB reach TLC as SHA-256 digests, on all sides alike) run every time.",
                technique="TLA+ specification of the XML format's meaning (XmlFormat.tla) + trace validation of logged write/read cases"),
    "C03": dict(level="model_checking", ref="§4 C03, §2.5",
                text="The independent decoder is the TLA+ module BinaryWire (docs/binary.md transcribed; its worked examples are ASSUMEs checked every run). Every file rbx_binary emits for generated forests is decoded by TLC and must satisfy WriterInvariants (all structural clauses of the property) and FileIssues = {} (the decoded classes, hierarchy and values are exactly the forest), for all three compression modes with byte-identical chunk data; a document-literal dialect run lists where document and code disagree.",
                note="Chunk bodies are decompressed with the lz4/zstd crates before TLC sees them; files are kept small enough for TLC's interpreter.",
                technique="TLA+ transcription of docs/binary.md (BinaryWire.tla) decoding real files inside TLC + structural invariants"),
    "C04": dict(level="model_checking", ref="§4 C04, §2.5",
                text="MCForeignBinary.tla enumerates, for fixed logical forests, every combination of the freedoms docs/binary.md leaves open (class ids, referents, INST/PROP/PRNT orders, META/unknown chunks, service format, narrower numeric types with large values, truncated/unknown-type PROP chunks, per-chunk compression, a declared class without instances, large sparse referents, properties unknown to the database). A foreign encoder written from the document concretises each abstract file; TLC first decodes the bytes with BinaryWire.tla and requires them to mean the logical forest (the encoder is held to the spec), then requires the forest rbx_binary read to be that forest.",
                note="Two fixed forests; quick tier replays a seeded sample of the enumerated abstract files, thorough all of group 2 and 12000 of group 1. INST chunks precede PROP chunks as in the document's file structure. Class ids and unknown-chunk data include the byte pattern of the Zstandard magic (ids are read as two's-complement 32-bit values, TLC's integers being 32-bit).",
                technique="TLA+ enumeration of spec-conformant encodings + independent encoder validated by the TLA+ decoder + trace validation of the real reader"),
    "C05": dict(level="model_checking", ref="§4 C02/C05, §2.6",
                text="Writer direction: every document rbx_xml emits is parsed by an independent XML parser (expat) into a token tree and TLC evaluates DocInvariants (all structural clauses of the property) and DocIssues = {} with XmlValue, the per-type value decoder transcribed from docs/xml.md. Reader direction: an independent generator written from docs/xml.md emits documents varying referent style, property order, indentation, Meta/External, forward references, ProtectedString, url/uri, wrapped and indented base64, number spellings, Properties placement, position of the SharedStrings dictionary; each document is first held to XmlFormat.tla itself, then the forest rbx_xml read must be the forest it describes.",
                note="Decimal text -> bit patterns is done by exact rational arithmetic in tools/xmltok.py (type-agnostic lexical views); which view a type uses is decided in TLA+. Two recorded findings (CR in strings, inf/NaN spelling inside CFrames). Documents holding values of more than a mebibyte are judged too: tools/xmltok.py replaces byte strings over 8 KiB by SHA-256 + length in the forests and in the views of the text alike.",
                technique="independent XML parser + TLA+ value decoder from docs/xml.md (XmlFormat.tla) + independent document generator validated by the same spec"),
    "C06": dict(level="model_checking", ref="§4 C06, §2.6",
                text="For generated DOMs over database classes (and, descriptor by descriptor, every serializable non-migrating property in canonical and alias spelling) both encodings are written and read; TLC evaluates CrossIssues (CrossFormatTrace.tla): identical shape and, for every explicitly set property, the same canonical name (one Reflection.tla lookup for both codecs) with equal values (NaN as a class, the binary format's documented rotation snapping applied to the XML side). Conversion bin->xml and xml->bin must lose nothing the first read produced.",
                note="Values sampled; Content object references excluded (recorded C02 finding). A written-out `boundary` sweep (edge values of every type under known spellings) runs every time.",
                technique="TLA+ cross-format equivalence (CrossFormatTrace.tla over XmlFormat/BinaryFormat/Reflection) + trace validation"),
    "C07": dict(level="model_checking", ref="§4 C07",
                text="Model: MCBinaryColumns' OrderFree invariant (TLC) shows no property-map or alias-set iteration order reaches the writer's output. Implementation: logical forests (a function of seed and case) (carrying explicit UniqueIds and instances with several SharedStrings) are built by four different construction histories (incl. moving every subtree to another DOM and back) with shuffled property insertion order in separate processes (fresh hash seeds, fresh Refs); DeterminismTrace.tla requires byte-identical binary (3 compressions) and XML output whenever the logical forest is equal, and save(load(save)) = save(load(save(load(save)))).",
                note="Byte equality through BLAKE3 digests; constructions are those of harness/src/det.rs (inserts, scratch-holder + transfer_within + destroy, other-DOM + transfer).",
                technique="TLA+ OrderFree invariant (TLC) + cross-process determinism traces judged by DeterminismTrace.tla"),
    "C08": dict(level="model_checking", ref="§4 C08, §2.5, App. B.3",
                text="MCBinaryColumns.tla models collect_type_info and the per-instance value lookup with the real database as a constant; TLC checks AlwaysSucceeds / OwnValues / ColumnsExact / ExplicitWins for every subset assignment, sibling order, property-map and alias-set iteration order (and re-finds both repaired defects under the pre-fix rules). Every population (initial state) is built as a real DOM, written and read by rbx_binary, also instance by instance, in several processes, and judged by BinaryFormat.tla (own values, defaults for lacking properties, success iff each instance succeeds alone, the outcome AlwaysSucceeds predicts, the same outcome for every sibling order and process).",
                note="Exhaustive for the listed classes/spellings and 2-3 instances; other classes are reached by C01's random generators. The Font enum -> Font face table is uninterpreted. Two configurations add a sibling of another known class that carries the same property names with different database defaults.",
                technique="TLA+ state machine of the writer's column logic (TLC) + exhaustive population replay + trace validation"),
    "C13": dict(level="fault_enumeration", ref="§4 C13, §2.7",
                text="IoFaults.tla models a byte source with short reads and Interrupted errors and is model-checked for schedule independence and truncation detection; every maximal schedule TLC prints is replayed (cycled) over valid binary (3 compressions), XML and attribute inputs on the real decoders, whose result must equal the whole-buffer result. Truncation at every offset must be an error, a sink failing at every output offset must surface as an error, byte/u32-field mutations at every offset of files that hold one value of every type, nesting depths up to 10^5 and seeded random bytes must end in ok/err - never panic, abort or hang. Outcome classes are judged by FaultTrace.tla.",
                note="Cases run in a child process under a 2 GiB address-space limit; aborts/hangs are attributed to the case announced last. Random bytes are explored, not exhausted; no memory-safety claim. One recorded finding (allocations sized by unchecked length fields). Sinks that take 1-64 bytes per call must receive the same bytes as one that takes everything (kind `partial`); typed blobs (MaterialColors, Tags, Attributes cut to every length) go through both readers.",
                technique="TLA+ fault/schedule model (IoFaults.tla, TLC) + exhaustive fault enumeration on the real decoders judged by FaultTrace.tla"),
    "C14": dict(level="model_checking", ref="§4 C14, §2.7",
                text="AttrWire.tla transcribes docs/attributes.md (its worked examples are ASSUMEs); TLC decodes every blob Attributes::to_writer produced for generated maps and requires the decoded entries to be the map (String as BinaryString, rotations snapped like CFrames), the reader's result to equal it, and empty map <-> zero bytes. Blobs from an independent encoder written from the document are first held to AttrWire, then must decode to the described values with the real reader. The same predicate judges the Attributes property inside binary and XML files.",
                note="Values sampled; the envelope slot of colour keypoints is written as zero by the foreign encoder. Clause `files`: the bytes both file formats store for the Attributes property of three sibling instances (read back without the database) are the blobs; clauses `sink-independent` (a sink taking three bytes per call receives the same blob) and `source-independent` (a source handing the blob over in pieces of 1, 2, 3 bytes decodes to the same map).",
                technique="TLA+ transcription of docs/attributes.md (AttrWire.tla) + trace validation + independent encoder"),
    "C15": dict(level="model_checking", ref="§4 C15, §2.5-2.6",
                text="For every Migrate descriptor of the exported database, every legacy value (all Enum.Font items, all BrickColor numbers, both booleans, URIs) and {legacy only, legacy + explicit new}, the four paths (binary write, XML write, binary read, XML read; read paths in both chunk/element orders) are executed and TLC evaluates MigIssues: legacy name absent, new property present, value = the specified migration (colour table, inset enum, content URI; Font uninterpreted), explicit value wins, all paths agree; sibling cases put two instances with different legacy values and a bare one in one file. The writer's alias choice is also model-checked (MCBinaryColumns: ExplicitWins).",
                note="Quick tier strides over the BrickColor numbers; thorough is exhaustive over the database's tables. Sibling cases: two legacy values in one file, and legacy + explicit next to legacy only in both orders (writers and XML reader); the explicit value is given under every spelling of the target (Color and Color3uint8).",
                technique="TLA+ MigIssues over the four logged paths (CrossFormatTrace.tla) + model-checked writer column logic"),
    "C16": dict(level="model_checking", ref="§4 C16, §2.2",
                text="The whole bundled database (797 classes, 3242 descriptors, 7231 defaults, 458 enums) is exported from the working tree and each entry is one TLC state whose coherence predicate (Reflection.tla) is an invariant - exhaustive. The library's own lookup functions (superclasses, superclasses_iter, has_superclass, find_default_property) are run for every class and compared with Reflection.tla's Chain / DefaultOf (ReflectionLookupTrace.tla). Closure under the codec: every class populated with its default set and every serializable descriptor are written/read by rbx_binary and judged by BinaryFormat.tla.",
                note="The export walks the public rbx_reflection API; a regenerated database is checked as it is. Quick tier runs the default-populated classes that together cover every distinct (property, default value) pair of the database plus a rotating quarter of the rest, and a third of the descriptor cases; thorough runs all. A case the codec refuses outright is reported as a violation.",
                technique="TLA+ coherence predicates over the database as a constant (TLC, exhaustive) + codec closure traces"),
    "C17": dict(level="exploration", ref="§4 C17, §2.7",
                text="TextForms.tla (TLC, exhaustive at width 8) models UniqueId's Display/FromStr and the Faces/Axes bit-set <-> name-list bijection. TextTrace.tla judges recorded executions: every implemented Variant type through serde_json (str, slice, reader, Value), bincode and MessagePack must come back bit-identical; UniqueId/Ref text forms (incl. negative random) round-trip; every u16 BrickColor number, every Faces/Axes bit set (name lists as specified), Tags/MaterialColors blobs; every sample of rbx_dom_lua/src/allValues.json decodes to its stated type and re-encodes to the same JSON tree.",
                note="The generic serde derives are identity checks to which the specification adds little (stated in DESIGN.md §5); serde_json is built with float_roundtrip in the harness.",
                technique="TLA+ text-form model (TLC) + trace validation of serde/text round trips (TextTrace.tla)"),
    "C18": dict(level="model_checking", ref="§4 C18, §2.4",
                text="TLC checks SharedString.tla for every interleaving of 3-4 threads (DataIntact, Dedup, EmptyAtQuiescence, deadlock freedom, liveness of the release window); every maximal interleaving of the 2-thread model is executed by real threads parked by hook H1 and validated step by step with the complete intern-table state; barrier snapshots of free-running threads must satisfy all invariants, and a pair phase (the only two holders of a content drop simultaneously, 150 000 times) must never leave a table entry behind.",
                note="Trusted: hook H1 placement (between Arc::into_inner and the table lock), TLC, thread/op bounds of the model; Arc internals are not modelled below the strong count. A burst phase (all threads intern the same fresh content at once and compare buffers), a churn phase (a second handle made while the partner's last releases of that content race with it) and a pair-drop phase make the Dedup / TableLive observations independent of scheduling luck.",
                technique="TLA+ spec SharedString.tla + TLC + deterministic schedule replay on real threads + trace validation"),
}

ORDER = ["C%02d" % i for i in range(1, 19)]

NOT_YET = "check under construction in this revision; will be claimed once its specification module and binding exist"


def main():
    commits = subprocess.run(["git", "-C", "/repo", "log", "--format=%H %s"], stdout=subprocess.PIPE, text=True).stdout
    hooks = [l.split()[0] for l in commits.splitlines() if l.split(" ", 1)[1].startswith("verif hooks")]
    m = {
        "version": 1,
        "setup_cmd": "./check --setup",
        "hooks": {
            "guard": "rbx_dom_verif",
            "enable": "RUSTFLAGS='--cfg rbx_dom_verif' (set in harness/.cargo/config.toml; the harness builds /repo crates as path dependencies with the cfg on)",
            "baseline_off_cmd": "cd /repo && cargo test --workspace --no-fail-fast --offline",
            "source_commits": hooks,
            "add_only": True,
        },
        "engines": [
            {"name": "tlc", "path": "spec/", "serves_properties": [c for c in ORDER if c in CHECKS],
             "kind_free_text": "explicit TLA+ specifications model-checked by TLC; trace specifications validate logs of the real code"},
            {"name": "rbxv", "path": "harness/", "serves_properties": [c for c in ORDER if c in CHECKS],
             "kind_free_text": "Rust harness (path deps on /repo, cfg rbx_dom_verif): replays TLC behaviours on the real code and records traces"},
        ],
        "checks": [],
        "not_applicable": [],
        "notes": "All checks: ./check <id> --tier quick|thorough; exit 0 held, 1 VIOLATION, 2 tool error. Known findings in known_findings.json.",
    }
    for pid in ORDER:
        if pid in CHECKS:
            c = CHECKS[pid]
            m["checks"].append({
                "property_id": pid,
                "quick_cmd": "./check %s --tier quick" % pid,
                "thorough_cmd": "./check %s --tier thorough" % pid,
                "evidence_file": "evidence/%s.json" % pid,
                "replay_cmd_template": "./check %s --replay {path}" % pid,
                "engine": "tlc",
                "level_claimed": {"category": c["level"], "text": c["text"], "design_ref": c["ref"]},
                "level_note": c["note"],
                "technique": c["technique"],
            })
        else:
            m["not_applicable"].append({"property_id": pid, "reason": NOT_YET})
    with open(os.path.join(HERE, "MANIFEST.json"), "w") as f:
        json.dump(m, f, indent=1)
        f.write("\n")


if __name__ == "__main__":
    main()

"""C01 / C03 (and shared machinery for C04, C08, C15): the binary codec judged by BinaryFormat.tla."""
import concurrent.futures as cf
import json
import os
import re
import time

from common import (OUT, SPEC, NCPU, Report, ToolError, build_harness, log, rbxv, tlc, tlc_violation, write_evidence)


def export_db():
    path = os.path.join(OUT, "db.json")
    rbxv(["export-db"], stdout_path=path)
    return path


def check_generated_tables():
    """The generated parts of the specs must be what the generators produce from the docs."""
    import subprocess
    rot = subprocess.run(["python3", os.path.join(os.path.dirname(SPEC), "tools", "gen_rotation_table.py")],
                         stdout=subprocess.PIPE, text=True, check=True).stdout
    wire = open(os.path.join(SPEC, "BinaryWire.tla")).read()
    for line in rot.strip().splitlines():
        if line.strip() not in wire.replace("    CASE", "CASE") and line.strip() not in wire:
            raise ToolError("BinaryWire.tla rotation table differs from docs/binary.md: %r" % line)


def split_lines(path, shards):
    lines = open(path).readlines()
    shards = max(1, min(shards, len(lines)))
    parts = []
    for i in range(shards):
        chunk = lines[i::shards]
        p = "%s.part%d" % (path, i)
        with open(p, "w") as f:
            f.writelines(chunk)
        parts.append((p, len(chunk)))
    return parts


def casefails(out):
    res = []
    pre = '<<"CASEFAIL", "'
    for line in out.splitlines():
        if line.startswith(pre) and line.endswith('">>'):
            res.append(json.loads(json.loads('"' + line[len(pre):-3] + '"')))
    return res


def validate_cases(module, trace, env, shards=None, timeout=3000, cfg_text="SPECIFICATION TraceSpec\nCHECK_DEADLOCK FALSE\n"):
    """Run a *Trace module over independent cases. Returns (n_cases, [casefail dict + 'part' path])."""
    cfg = os.path.join(OUT, "%s.cfg" % module)
    with open(cfg, "w") as f:
        f.write(cfg_text)
    n = sum(1 for _ in open(trace))
    if shards is None:
        shards = max(1, min(NCPU - 2, n // 8 or 1))
    parts = split_lines(trace, shards)
    fails = []

    def one(part):
        """-> (part, [casefails]).  A case the specification cannot evaluate (TLC runtime error, e.g. the
        TLA+ decoder running off the end of bytes the implementation wrote) becomes a `judge-error`
        casefail for that case and judging resumes with the next line."""
        p, cnt = part
        lines = open(p).readlines()
        offset = 0
        cur = p
        got = []
        for attempt in range(40):
            e = dict(env)
            e["TRACE"] = cur
            r = tlc(module, cfg, workers=1, env=e, timeout=timeout, xmx="3g", tolerate_eval_error=True)
            here = casefails(r["out"])
            for c in here:
                c["line"] += offset
            if "eval_error" in r:
                ks = re.findall(r"^l = (\d+)$", r["out"], re.M)
                if not ks:
                    raise ToolError("%s: evaluation error without a position:\n%s" % (module, r["out"][-2500:]))
                k = int(ks[-1]) + offset
                got += [c for c in here if c["line"] < k]
                try:
                    ep = json.loads(lines[k - 1]).get("ep", "?")
                except Exception:
                    ep = "?"
                got.append({"line": k, "ep": ep, "clause": "judge-error", "issues": [], "error": r["eval_error"]})
                if k >= len(lines):
                    return p, got
                cur = "%s.rest%d" % (p, attempt)
                with open(cur, "w") as f:
                    f.writelines(lines[k:])
                offset = k
                continue
            v = tlc_violation(r)
            if v:
                raise ToolError("%s stopped on %s: %s\n%s" % (module, cur, v, r["out"][-2500:]))
            done = re.search(r'<<"TRACE_DONE", (\d+)>>', r["out"])
            if not done or int(done.group(1)) != len(lines) - offset:
                raise ToolError("%s did not consume %s (%d lines):\n%s" % (module, cur, len(lines) - offset, r["out"][-3000:]))
            got += here
            if cur != p and os.path.exists(cur):
                os.remove(cur)
            return p, got
        raise ToolError("%s: more than 40 cases of %s could not be evaluated" % (module, p))

    with cf.ThreadPoolExecutor(max_workers=len(parts)) as ex:
        for p, got in ex.map(one, parts):
            for c in got:
                c["part"] = p
                fails.append(c)
    return n, fails


def find_event(part, ep):
    tags = ('"ep":%s' % json.dumps(ep), '"ep": %s' % json.dumps(ep))
    for l in open(part):
        if tags[0] in l or tags[1] in l:
            return json.loads(l)
    return None


def value_type_of(ev, k, prop):
    try:
        for p in ev["before"]["inst"][k - 1]["props"]:
            if p[0] == prop:
                return p[1]["t"]
    except Exception:
        pass
    return "?"


C01_CLAUSES = ("write-", "read-", "roundtrip-", "rootclass-")
C03_CLAUSES = ("structure-", "meaning-", "method-", "same-payload")


def report_fails(rep, pid, fails, dialect, clauses):
    for c in fails:
        clause = c["clause"]
        if clause == "judge-error":
            rep.violation("judge-error|%s|%s" % (dialect, re.sub(r"\d+", "N", c.get("error", ""))[:80]),
                          lambda c=c: {"case": c, "event": find_event(c["part"], c["ep"])},
                          "%s: BinaryFormat.tla cannot evaluate this case (%s)" % (c["ep"], c.get("error", "")))
            continue
        if not clause.startswith(clauses):
            continue
        base = clause.split("-")[0]
        issues = c.get("issues") or []
        ev = None
        if base == "structure" and not issues:
            issues = duplicate_prop_chunks(find_event(c["part"], c["ep"]))
        issues = issues or [[0, "", "", ""]]
        for iss in issues:
            k, cls, prop, what = iss
            sig = "%s|%s|%s.%s|%s" % (base, dialect, cls, prop, what)
            if dialect == "doc" and base == "structure" and what == "prop-chunk-undecodable":
                sig = "structure|doc|type:%s|%s" % (prop, what)
            if dialect == "doc" and base == "meaning":
                ev = ev or find_event(c["part"], c["ep"])
                sig = "meaning|doc|type:%s|%s" % (value_type_of(ev, k, prop), what)
            rep.violation(sig, lambda c=c: {"case": c, "event": find_event(c["part"], c["ep"])},
                          "%s: clause %s failed for %s" % (c["ep"], clause, iss))


def duplicate_prop_chunks(ev):
    """diagnosis only: names that occur on two PROP chunks (the judgement was made by WriterInvariants)"""
    names = []
    try:
        for ch in ev["modes"]["none"]["file"]["chunks"]:
            if ch["name"] == "PROP":
                nl = ch["payload"][4] + 256 * ch["payload"][5]
                names.append((tuple(ch["payload"][0:4]), bytes(ch["payload"][8:8 + nl]).decode(errors="replace")))
    except Exception:
        return []
    return [[0, "", n[1], "duplicate-prop-chunk"] for n in sorted({n for n in names if names.count(n) > 1})]


def cleanup(path, rep):
    if rep.violations:
        return
    d = os.path.dirname(path)
    base = os.path.basename(path)
    for f in os.listdir(d):
        if f == base or f.startswith(base + ".part"):
            os.remove(os.path.join(d, f))


def count_nontrivial(trace):
    """distinct cases with >= 2 instances of one class or a Ref/SharedString/CFrame property."""
    seen = set()
    n = 0
    samples = []
    for l in open(trace):
        e = json.loads(l)
        if "before" not in e:            # fingerprinted huge case
            n += 1
            continue
        insts = e["before"]["inst"]
        classes = [i["class"] for i in insts]
        types = {p[1]["t"] for i in insts for p in i["props"]}
        nontrivial = len(classes) != len(set(classes)) or types & {"Ref", "SharedString", "CFrame", "Content", "Attributes"}
        key = hash(json.dumps(e["before"], sort_keys=True))
        if nontrivial and key not in seen:
            seen.add(key)
            n += 1
        if len(samples) < 2 and len(insts) >= 2:
            samples.append({"ep": e["ep"], "before": {"roots": e["before"]["roots"],
                            "inst": [{"class": i["class"], "parent": i["parent"],
                                      "props": [[p[0], p[1]["t"]] for p in i["props"]]} for i in insts]}})
    return n, samples


def run(pid, tier, seed, replay=None):
    t0 = time.time()
    quick = tier == "quick"
    rep = Report(pid)
    build_harness()
    check_generated_tables()
    db = export_db()
    env = {"DBJSON": db}

    # the transcription of docs/binary.md is re-checked against the document's own examples
    r = tlc("BinaryWireExamples", _cfg("examples", "SPECIFICATION Spec\n"), workers=1, timeout=600)
    if "Assumption" in r["out"] and "is false" in r["out"]:
        raise ToolError("BinaryWire no longer reproduces the examples of docs/binary.md:\n" + r["out"][-1500:])

    plans = [("mixed", seed, 160 if quick else (20000 if pid == "C01" else 2500), 6), ("unknown", seed + 1, 50 if quick else (6000 if pid == "C01" else 800), 5),
             ("known", seed + 2, 60 if quick else (8000 if pid == "C01" else 1200), 8), ("columns", seed + 3, 120 if quick else (10000 if pid == "C01" else 2500), 6),
             ("shapes", seed + 4, 50 if quick else (3000 if pid == "C01" else 600), 6),
             # the edge values of every type, written out (not sampled): under a known spelling, an alias, an unknown class
             ("boundary", 0, 4 if quick else 40, 6)]
    if pid == "C01":
        # every serializable descriptor of the database (canonical and alias spellings) as a one-property instance
        plans.append(("descriptors", seed + 7, 0, 6))
        # several hundred instances per file (multi-byte referents, long columns); only the round-trip clauses
        # are cheap enough at this size (decoding such a file inside TLC takes tens of minutes)
        plans.append(("scale", seed + 5, 12 if quick else 300, 6))
        plans.append(("huge", seed + 6, 4 if quick else 24, 6))      # fingerprinted: 17 000 instances, > 1 MiB values, > 65 535 keypoints
    total = 0
    nontrivial = 0
    samples = []
    clauses = C01_CLAUSES if pid == "C01" else C03_CLAUSES
    for mode, sd, count, maxi in plans:
        trace = os.path.join(OUT, "%s_bin_%s.ndjson" % (pid, mode))
        rbxv(["bin-cases", "--seed", sd, "--count", count, "--max-instances", maxi, "--mode", mode], stdout_path=trace)
        if mode == "descriptors" and quick:
            lines = open(trace).readlines()
            open(trace, "w").writelines([l for i, l in enumerate(lines) if (i + seed) % 2 == 0])
        n, fails = validate_cases("BinaryFormatTrace", trace,
                                  dict(env, DIALECT="code", CLAUSES="roundtrip" if pid == "C01" else "all"))
        total += n
        report_fails(rep, pid, fails, "code", clauses)
        nt, smp = count_nontrivial(trace)
        nontrivial += nt
        samples += smp[:1]
        if pid == "C03" and mode == "mixed":
            # the document-literal dialect: every disagreement must be one of the recorded doc/code differences
            head = trace + ".doc"
            with open(head, "w") as f:
                f.writelines(open(trace).readlines()[: (40 if quick else 300)])
            n2, fails2 = validate_cases("BinaryFormatTrace", head, dict(env, DIALECT="doc"))
            report_fails(rep, pid, fails2, "doc", ("meaning-", "structure-"))
            cleanup(head, rep)
        cleanup(trace, rep)
        log("[%s] %s: %d cases judged by BinaryFormat.tla" % (pid, mode, n))

    rc = rep.finish()
    cov = {"programs": total, "disagreements_checked": len(rep.violations) + len(rep.known_hit),
           "samples": samples, "evaluations": total * 3, "distinct_nontrivial": nontrivial,
           "rule": "random DOMs (known classes with database properties of every binary type, unknown classes, mixed), random "
                   "non-overlapping root selections, three compression modes each; non-trivial = distinct forests with two "
                   "instances of one class or a Ref/SharedString/CFrame/Content/Attributes value",
           "traces_validated_against_impl": total, "states": total, "transitions": total,
           "explanation": "each case: forest -> rbx_binary bytes (3 compressions) -> split into chunks -> decoded by the TLA+ "
                          "transcription of docs/binary.md (BinaryWire) -> WriterInvariants + FileIssues (C03) and "
                          "RoundTripIssues on the forest rbx_binary read back (C01), all evaluated by TLC"}
    write_evidence(pid, tier, seed, "model_checking", cov, time.time() - t0, len(rep.violations),
                   ["lz4/zstd payloads are decompressed by the third-party crates, not re-specified",
                    "value spaces are sampled (boundary tables + random bits), not exhausted",
                    "chunk splitting in the harness follows the frame layout of docs/binary.md and is re-checked by FrameOK"])
    return rc


def _cfg(name, text):
    p = os.path.join(OUT, "cfg_%s.cfg" % name)
    with open(p, "w") as f:
        f.write(text)
    return p

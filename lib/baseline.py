#!/usr/bin/env python3
"""Runs the repository's test suite (guard off) and compares with BASELINE.json's stable passes."""
import json, re, subprocess, sys
base = json.load(open('/root/.vp/BASELINE.json'))
stable = set(base['stable_pass'])
p = subprocess.run('cd /repo && cargo test --workspace --no-fail-fast --offline 2>&1', shell=True, stdout=subprocess.PIPE, text=True)
crate = None
passed = set(); failed = set()
for line in p.stdout.splitlines():
    m = re.search(r'Running (?:unittests )?(\S+) \(target/debug/deps/([A-Za-z0-9_]+)-[0-9a-f]+\)', line)
    if m:
        crate = m.group(2); src = m.group(1)
        continue
    m = re.search(r'Doc-tests (\S+)', line)
    if m:
        crate = 'doc:' + m.group(1); continue
    m = re.match(r'test (\S+)(?: - should panic)? \.\.\. (ok|FAILED)', line)
    if m and crate:
        name = '%s::%s' % (crate, m.group(1))
        (passed if m.group(2) == 'ok' else failed).add(name)
missing = sorted(s for s in stable if s not in passed)
print('passed', len(passed), 'failed', len(failed), 'stable', len(stable), 'stable-but-not-passing', len(missing))
for m in missing[:40]:
    print('  MISSING', m)
sys.exit(1 if missing else 0)

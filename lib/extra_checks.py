"""Supplementary specifications beyond the 18 listed properties (`./check extras`): the specification keeps
growing with the system.  Not registered in MANIFEST.json (its checks are per listed property)."""
import os
import time

from common import OUT, Report, ToolError, build_harness, log, rbxv, tlc, tlc_violation, validate_trace
from bin_checks import _cfg


def run(tier, seed):
    quick = tier == "quick"
    build_harness()
    rep = Report("EXTRA")
    # Attributes in-memory API: MCAttrMap (all histories over 5 keys x 2 values) + driver trace
    r = tlc("MCAttrMap", _cfg("attrmap_mc", "SPECIFICATION Spec\nCONSTANTS Keys <- MCKeys\n Values <- MCValues\nINVARIANTS IterationSorted\nCHECK_DEADLOCK FALSE\n"),
            workers=4, timeout=600)
    v = tlc_violation(r)
    if v:
        rep.violation("attrmap|spec", {"tlc": r["out"][-2000:]}, v)
    trace = os.path.join(OUT, "extra_attrmap.ndjson")
    rbxv(["attr-map", "--seed", seed, "--episodes", 60 if quick else 2000, "--steps", 50], stdout_path=trace)
    cfg = _cfg("attrmap_tr", "SPECIFICATION TraceSpec\nCONSTANTS Keys = {}\n Values = {}\nINVARIANTS IterationSorted\nCHECK_DEADLOCK FALSE\n")
    res = validate_trace("AttrMapTrace", cfg, trace, shards=1 if quick else None)
    for m in res["mismatches"]:
        rep.violation("attrmap|%s" % m[3], {"line": m[1], "episode": m[2]}, "Attributes API diverged from AttrMap.tla at %s" % (m[3],))
    log("[extras] AttrMap: %s model states, %d driver events validated" % (r.get("distinct"), res["events"]))
    if not rep.violations and os.path.exists(trace):
        os.remove(trace)
    dom_viewer(rep, quick, seed)
    xml_option_matrix(rep, quick, seed)
    convertible_inputs(rep, quick, seed)
    text_view(rep, quick, seed)
    return rep.finish()


def text_view(rep, quick, seed):
    """TextView.tla: rbx_binary::text_format::DecodedModel (rbx_util view-binary) against BinaryWire.tla."""
    from bin_checks import export_db, validate_cases, cleanup, find_event
    n_total = 0
    for mode, cnt in (("mixed", 60 if quick else 1500), ("shapes", 40 if quick else 600), ("columns", 40 if quick else 600)):
        trace = os.path.join(OUT, "extra_textview_%s.ndjson" % mode)
        rbxv(["bin-cases", "--seed", seed + 11, "--count", cnt, "--max-instances", 6, "--mode", mode], stdout_path=trace,
             env={"RBXV_TEXT_VIEW": "1"})
        n, fails = validate_cases("BinaryFormatTrace", trace, {"DBJSON": export_db(), "DIALECT": "code", "CLAUSES": "roundtrip"})
        n_total += n
        for c in fails:
            if not c["clause"].startswith(("textview", "judge-error")):
                continue
            for iss in (c.get("issues") or [[0, "", ""]]):
                rep.violation("textview|%s|%s" % (iss[1], iss[2]), lambda c=c: {"case": c, "event": find_event(c["part"], c["ep"])},
                              "%s: DecodedModel and BinaryWire.tla disagree on chunk %s (%s %s)" % (c["ep"], iss[0], iss[1], iss[2]))
        cleanup(trace, rep)
    log("[extras] text view: %d files, DecodedModel structure judged against BinaryWire.tla" % n_total)


def convertible_inputs(rep, quick, seed):
    """Values of a type both writers convert to the declared one (Int32 -> Int64 / BrickColor, Float32 ->
    Float64, EnumItem -> Enum): both codecs accept them, agree, and store the converted value (ConvOK)."""
    from bin_checks import export_db, validate_cases, cleanup, find_event
    trace = os.path.join(OUT, "extra_convertible.ndjson")
    rbxv(["cross-cases", "--convertible", "1", "--seed", seed, "--count", 300 if quick else 8000], stdout_path=trace)
    n, fails = validate_cases("CrossFormatTrace", trace, {"DBJSON": export_db()})
    for c in fails:
        for k, cls, prop, what in (c.get("issues") or [[0, "", "", ""]]):
            rep.violation("convertible|%s|%s.%s|%s" % (c["clause"], cls, prop, what),
                          lambda c=c: {"case": c, "event": find_event(c["part"], c["ep"])},
                          "%s: %s %s.%s %s" % (c["ep"], c["clause"], cls, prop, what))
    log("[extras] convertible inputs: %d cases judged by CrossFormatTrace.tla (ConvOK, CrossIssues)" % n)
    cleanup(trace, rep)


def xml_option_matrix(rep, quick, seed):
    """XmlFormat.tla over all 4 x 4 Encode/DecodePropertyBehavior pairings (C02 covers the pairings that keep a
    property): WriteExpected / ReadExpected say when ErrorOnUnknown must fail, XmlStored / kept() what
    IgnoreUnknown drops."""
    import xml_checks
    from bin_checks import export_db, validate_cases, cleanup
    raw = os.path.join(OUT, "extra_xml_matrix.ndjson")
    rbxv(["xml-cases", "--seed", seed + 5, "--count", 300 if quick else 6000, "--max-instances", 5, "--mode", "matrix"], stdout_path=raw)
    tok = raw + ".tok"
    xml_checks.tokenise(raw, tok)
    n, fails = validate_cases("XmlFormatTrace", tok, {"DBJSON": export_db(), "CLAUSES": "roundtrip"})
    xml_checks.report(rep, "EXTRA", fails, xml_checks.C02_CLAUSES)
    log("[extras] XML option matrix: %d cases (16 pairings) judged by XmlFormat.tla" % n)
    cleanup(raw, rep)
    cleanup(tok, rep)


def dom_viewer(rep, quick, seed):
    """DomViewer.tla: numbering of referents across views and DOMs (model check + driver trace)."""
    r = tlc("MCDomViewer", _cfg("domviewer_mc", "SPECIFICATION Spec\nINVARIANTS NumberingExact\nPROPERTIES Stable\nCHECK_DEADLOCK FALSE\n"),
            workers=4, timeout=600)
    v = tlc_violation(r)
    if v:
        rep.violation("domviewer|spec", {"tlc": r["out"][-2000:]}, v)
    trace = os.path.join(OUT, "extra_domviewer.ndjson")
    rbxv(["viewer", "--seed", seed, "--episodes", 80 if quick else 3000, "--steps", 14], stdout_path=trace)
    cfg = _cfg("domviewer_tr", "SPECIFICATION TraceSpec\nINVARIANTS NumberingExact\nCHECK_DEADLOCK FALSE\n")
    res = validate_trace("DomViewerTrace", cfg, trace, shards=1 if quick else None)
    for m in res["mismatches"]:
        rep.violation("domviewer|%s" % m[3], {"line": m[1], "episode": m[2]}, "DomViewer diverged from DomViewer.tla at %s" % (m[3],))
    for shard, text, tail in res["violations"]:
        rep.violation("domviewer|" + text[:60], {"tlc": tail}, text)
    log("[extras] DomViewer: %s model states, %d driver events validated" % (r.get("distinct"), res["events"]))
    if not rep.violations and os.path.exists(trace):
        os.remove(trace)

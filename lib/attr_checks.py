"""C14: attribute blobs judged by AttrWire.tla (docs/attributes.md)."""
import json
import os
import subprocess
import time

from common import (OUT, VERIF, Report, ToolError, build_harness, log, rbxv, tlc, write_evidence)
from bin_checks import export_db, validate_cases, cleanup, find_event, _cfg


def run(pid, tier, seed, replay=None):
    t0 = time.time()
    quick = tier == "quick"
    rep = Report(pid)
    build_harness()
    db = export_db()
    env = {"DBJSON": db}
    total = 0
    samples = []
    trace = os.path.join(OUT, "C14_attr.ndjson")
    rbxv(["attr-cases", "--seed", seed, "--count", 1500 if quick else 40000], stdout_path=trace)
    n, fails = validate_cases("AttrTrace", trace, env)
    total += n
    types = set()
    distinct = set()
    for i, l in enumerate(open(trace)):
        e = json.loads(l)
        for ent in e.get("map", []):
            types.add(ent[1]["t"])
        distinct.add(hash(json.dumps(e.get("map", []))))
        if i == 3:
            samples.append({"map": [[bytes(x[0]).decode(errors="replace"), x[1]["t"]] for x in e["map"]][:8], "blob_len": len(e.get("blob", []))})
    report(rep, fails)
    cleanup(trace, rep)
    cases = os.path.join(OUT, "C14_foreign_cases.ndjson")
    with open(cases, "wb") as f:
        p = subprocess.run(["python3", os.path.join(VERIF, "tools", "foreign_attr.py"), "--seed", str(seed),
                            "--count", str(600 if quick else 20000)], stdout=f, stderr=subprocess.PIPE)
    if p.returncode != 0:
        raise ToolError("foreign_attr failed: " + p.stderr.decode()[-1500:])
    ftrace = os.path.join(OUT, "C14_foreign_trace.ndjson")
    rbxv(["attr-foreign"], stdin_path=cases, stdout_path=ftrace)
    n2, fails2 = validate_cases("AttrTrace", ftrace, env)
    total += n2
    for c in fails2:
        if c["clause"].startswith("generator"):
            raise ToolError("the foreign attribute encoder does not satisfy AttrWire.tla itself: %s" % c)
    report(rep, fails2)
    for p_ in (cases, ftrace):
        cleanup(p_, rep)
    log("[C14] %d maps through to_writer/from_reader, %d foreign blobs; value types seen: %d" % (n, n2, len(types)))
    rc = rep.finish()
    cov = {"programs": total, "disagreements_checked": len(rep.violations), "samples": samples, "evaluations": total,
           "distinct_nontrivial": len(distinct), "traces_validated_against_impl": total, "states": total, "transitions": total,
           "value_types_seen": sorted(types),
           "rule": "random attribute maps (0..40 entries, UTF-8 names incl. empty, all supported types, boundary floats, all basic "
                   "rotations +-1 ulp, scaled and general matrices) and blobs from an independent encoder written from docs/attributes.md; "
                   "distinct maps counted",
           "explanation": "AttrWire.tla (the document transcribed, its examples as ASSUMEs) decodes every blob inside TLC; the same "
                          "predicate AttrBlobOK judges the Attributes property inside binary files (C01/C03) and XML documents (C02/C05)"}
    write_evidence(pid, tier, seed, "model_checking", cov, time.time() - t0, len(rep.violations),
                   ["value spaces sampled", "BrickColor numbers restricted to valid colours"])
    return rc


def report(rep, fails):
    for c in fails:
        rep.violation("attr|%s" % c["clause"], lambda c=c: {"case": c, "event": find_event(c["part"], c["ep"])},
                      "%s: clause %s failed" % (c["ep"], c["clause"]))

"""Shared machinery for ./check: harness build, TLC runs, trace sharding, evidence, findings."""
import concurrent.futures as cf
import hashlib
import json
import os
import re
import shutil
import subprocess
import sys
import time

VERIF = os.path.dirname(os.path.dirname(os.path.abspath(__file__)))
SPEC = os.path.join(VERIF, "spec")
OUT = os.path.join(VERIF, "out")
HARNESS = os.path.join(VERIF, "harness")
RBXV = os.path.join(HARNESS, "target", "debug", "rbxv")
EVID = os.path.join(VERIF, "evidence")
NCPU = os.cpu_count() or 8


class ToolError(Exception):
    """Something in the tooling failed (never reported as a violation)."""


def log(*a):
    print(*a, flush=True)


def ensure_dirs():
    for d in (OUT, EVID, os.path.join(OUT, "replay")):
        os.makedirs(d, exist_ok=True)


def build_harness():
    """Rebuild the harness against /repo's current working tree, hooks on."""
    ensure_dirs()
    lock = os.path.join(HARNESS, "Cargo.lock")
    if not os.path.exists(lock):
        shutil.copy("/repo/Cargo.lock", lock)
    env = dict(os.environ, CARGO_NET_OFFLINE="true")
    t0 = time.time()
    p = subprocess.run(["cargo", "build", "--offline"], cwd=HARNESS, env=env,
                       stdout=subprocess.PIPE, stderr=subprocess.STDOUT, text=True)
    if p.returncode != 0:
        # a stale lock file (dependency set of /repo changed): retry from /repo's lock
        shutil.copy("/repo/Cargo.lock", lock)
        p = subprocess.run(["cargo", "build", "--offline"], cwd=HARNESS, env=env,
                           stdout=subprocess.PIPE, stderr=subprocess.STDOUT, text=True)
    if p.returncode != 0:
        sys.stdout.write(p.stdout[-6000:])
        raise ToolError("harness build failed")
    return time.time() - t0


def rbxv(args, stdin_path=None, stdout_path=None, input_bytes=None, timeout=3600, check=True, env=None):
    fin = open(stdin_path, "rb") if stdin_path else None
    fout = open(stdout_path, "wb") if stdout_path else subprocess.PIPE
    try:
        p = subprocess.run([RBXV] + [str(a) for a in args], stdin=fin, input=input_bytes,
                           stdout=fout, stderr=subprocess.PIPE, timeout=timeout,
                           env=dict(os.environ, **env) if env else None)
    except subprocess.TimeoutExpired:
        raise ToolError("harness timed out: %s" % (args,))
    finally:
        if fin:
            fin.close()
        if stdout_path:
            fout.close()
    if check and p.returncode != 0:
        raise ToolError("harness failed (%s): %s" % (args, p.stderr.decode(errors="replace")[-3000:]))
    return p


_tlc_counter = [0]


def tlc(module, cfg, workers=1, env=None, timeout=1800, simulate=None, depth=None, seed=None,
        coverage=False, xmx="4g", deque=False, extra=None, tolerate_eval_error=False):
    """Run TLC; returns dict(out, rc, generated, distinct, depth). Raises ToolError on tool failure."""
    _tlc_counter[0] += 1
    meta = os.path.join(OUT, "tlc", "%s-%d-%d" % (module, os.getpid(), _tlc_counter[0]))
    os.makedirs(meta, exist_ok=True)
    jopts = "-Xss1g -Xmx%s" % xmx
    if workers == 1:
        jopts += " -XX:ParallelGCThreads=2 -XX:CICompilerCount=2"
    if deque:
        jopts += " -Dtlc2.tool.queue.IStateQueue=StateDeque"
    e = dict(os.environ)
    e["JAVA_TOOL_OPTIONS"] = jopts
    if env:
        e.update(env)
    cmd = ["timeout", str(timeout), "tlc", "-workers", str(workers), "-metadir", meta, "-cleanup",
           "-noGenerateSpecTE", "-config", cfg]
    if coverage:
        cmd += ["-coverage", "1"]
    if simulate:
        cmd += ["-simulate", "num=%d" % simulate]
    if depth:
        cmd += ["-depth", str(depth)]
    if seed is not None:
        cmd += ["-seed", str(seed)]
    if extra:
        cmd += extra
    cmd.append(module + ".tla")
    t0 = time.time()
    p = subprocess.run(cmd, cwd=SPEC, env=e, stdout=subprocess.PIPE, stderr=subprocess.STDOUT)
    out = p.stdout.decode(errors="replace")
    shutil.rmtree(meta, ignore_errors=True)
    res = {"out": out, "rc": p.returncode, "wall": time.time() - t0, "cmd": " ".join(cmd)}
    m = re.search(r"(\d[\d,]*) states generated, (\d[\d,]*) distinct states found", out)
    if m:
        res["generated"] = int(m.group(1).replace(",", ""))
        res["distinct"] = int(m.group(2).replace(",", ""))
    m = re.search(r"depth of the complete state graph search is (\d+)", out)
    if m:
        res["depth"] = int(m.group(1))
    if p.returncode == 124:
        raise ToolError("TLC timed out after %ss: %s" % (timeout, " ".join(cmd)))
    if tolerate_eval_error and "The behavior up to this point is" in out \
            and not re.search(r"Error: (Invariant \S+ is violated|Action property \S+ is violated|Temporal properties were "
                              r"violated|Deadlock reached|Assumption .* is false)", out) \
            and "java.lang.OutOfMemoryError" not in out and "StackOverflowError" not in out:
        # the specification could not evaluate one of the logged cases (e.g. its decoder ran off the end of
        # bytes the implementation wrote, or a length field overflowed): the caller turns this into a
        # finding about that case
        m = re.search(r"The exception was a [^\n]*\n: ([^\n]*)", out) or re.search(r"^Error: (?!TLC threw|The behavior)([^\n]*)", out, re.M)
        res["eval_error"] = (m.group(1) if m else "evaluation error")[:160]
        return res
    if "Parsing or semantic analysis failed" in out or "Error: TLC threw an unexpected exception" in out \
            or "java.lang.OutOfMemoryError" in out or "StackOverflowError" in out:
        raise ToolError("TLC tool error:\n" + out[-4000:])
    return res


def tlc_violation(res):
    """Text of an invariant/property violation reported by TLC, or None."""
    out = res["out"]
    m = re.search(r"Error: (Invariant \S+ is violated|Action property \S+ is violated|"
                  r"Temporal properties were violated|Deadlock reached|Assumption .* is false)[^\n]*", out)
    if m:
        return m.group(0)
    if res["rc"] not in (0,) and "Model checking completed. No error has been found" not in out \
            and "Finished in" not in out:
        raise ToolError("TLC ended abnormally (rc=%s):\n%s" % (res["rc"], out[-3000:]))
    if re.search(r"^Error: ", out, re.M):
        m = re.search(r"^Error: [^\n]*(\n[^\n]*){0,6}", out, re.M)
        raise ToolError("TLC error:\n" + m.group(0))
    return None


def coverage_zero_actions(out):
    """Actions with zero count in a -coverage 1 report: lines '<Name line ...>: 0:0'."""
    # a long run prints a report every minute: only the last one counts (an action that happens late in the
    # breadth-first order is still at zero in the interim reports); within one report an action may be listed
    # several times (one line per disjunct) - it is "never taken" only if all its lines are zero
    reports = re.split(r"The coverage statistics at", out)
    last = reports[-1]
    total = {}
    for m in re.finditer(r"^<(\w+) line [^>]*>: (\d+):(\d+)", last, re.M):
        total[m.group(1)] = total.get(m.group(1), 0) + int(m.group(2)) + int(m.group(3))
    return [name for name, n in total.items() if n == 0]


def replay_lines(out, tag="REPLAY"):
    """JSON payloads printed by PrintT(<<tag, ToJson(x)>>)."""
    res = []
    pre = '<<"%s", "' % tag
    for line in out.splitlines():
        if line.startswith(pre) and line.endswith('">>'):
            inner = line[len(pre):-3]
            res.append(json.loads('"' + inner + '"'))
    return res


def split_episodes(path, shards):
    """Split an ndjson trace into `shards` files on 'reset' boundaries. Returns list of (path, nlines)."""
    outs = [open("%s.shard%d" % (path, i), "w") for i in range(shards)]
    counts = [0] * shards
    cur = -1
    nep = 0
    with open(path) as f:
        for line in f:
            if line.startswith('{"ep"') or '"op":"reset"' in line:
                if '"op":"reset"' in line:
                    nep += 1
                    cur = min(range(shards), key=lambda i: counts[i])
            if cur < 0:
                cur = 0
            outs[cur].write(line)
            counts[cur] += 1
    for o in outs:
        o.close()
    return [("%s.shard%d" % (path, i), counts[i]) for i in range(shards) if counts[i] > 0], nep


def validate_trace(module, cfg, trace_path, shards=None, timeout=1800, extra_env=None):
    """Validate an ndjson trace with a *Trace spec, sharded over single-worker TLCs.
    Returns dict(events, mismatches=[(shard_path, line, ep, op)], violations=[text], states)."""
    if shards is None:
        shards = max(1, min(NCPU - 2, 14))
    n = sum(1 for _ in open(trace_path))
    if n < 2000:
        shards = 1
    parts, nep = split_episodes(trace_path, shards)
    result = {"events": n, "episodes": nep, "mismatches": [], "violations": [], "states": 0}

    def one(part):
        p, cnt = part
        env = {"TRACE": p}
        if extra_env:
            env.update(extra_env)
        r = tlc(module, cfg, workers=1, env=env, timeout=timeout, xmx="3g", deque=True, tolerate_eval_error=True)
        return p, cnt, r

    with cf.ThreadPoolExecutor(max_workers=len(parts)) as ex:
        for p, cnt, r in ex.map(one, parts):
            out = r["out"]
            if "eval_error" in r:
                # the trace specification could not evaluate a logged event (values no behaviour of the specification
                # can show, e.g. a referent the driver never registered): a finding about that shard, not a tool
                # failure; the mismatches printed before it still count
                result["violations"].append((p, "judge-error: " + r["eval_error"], out[-3000:]))
                for m in re.finditer(r'<<"MISMATCH", (\d+)((?:, "[^"]*")+)>>', out):
                    fields = re.findall(r'"([^"]*)"', m.group(2))
                    result["mismatches"].append(tuple([p, int(m.group(1))] + fields))
                continue
            viol = tlc_violation(r)
            if viol:
                result["violations"].append((p, viol, out[-3000:]))
            done = re.search(r'<<"TRACE_DONE", (\d+)>>', out)
            if not viol and (not done or int(done.group(1)) != cnt):
                raise ToolError("trace validator did not consume %s (%s lines):\n%s" % (p, cnt, out[-3000:]))
            for m in re.finditer(r'<<"MISMATCH", (\d+)((?:, "[^"]*")+)>>', out):
                fields = re.findall(r'"([^"]*)"', m.group(2))
                result["mismatches"].append(tuple([p, int(m.group(1))] + fields))
            result["states"] += r.get("distinct", 0)
    return result


def episode_lines(trace_path, ep):
    tag = '"ep":%s' % json.dumps(ep)
    return [l for l in open(trace_path) if tag in l]


def write_replay(pid, payload):
    ensure_dirs()
    blob = json.dumps(payload, sort_keys=True)
    h = hashlib.sha1(blob.encode()).hexdigest()[:12]
    path = os.path.join(OUT, "replay", "%s-%s.json" % (pid, h))
    with open(path, "w") as f:
        f.write(blob)
    return path


def load_findings():
    path = os.path.join(VERIF, "known_findings.json")
    if not os.path.exists(path):
        return []
    return json.load(open(path)).get("findings", [])


class Report:
    """Collects violations for one property; prints VIOLATION / KNOWN-FINDING lines."""

    def __init__(self, pid):
        self.pid = pid
        self.violations = []   # (signature, replay_path, text)
        self.known_hit = {}
        self.known = [f for f in load_findings() if f["property"] == pid and f.get("status") == "known"]

    def wants_payload(self, signature):
        """False once enough replay files exist for this signature (payloads are costly to build)."""
        return sum(1 for v in self.violations if v[0] == signature) < 3

    def violation(self, signature, payload, text=""):
        if callable(payload):
            payload = payload() if self.wants_payload(signature) else {"note": "further occurrence, see first replay files"}
        for f in self.known:
            if f["signature"] == signature or (f.get("signature_regex") and re.fullmatch(f["signature_regex"], signature)):
                self.known_hit.setdefault(f["signature"], f)
                return
        if self.wants_payload(signature):
            path = write_replay(self.pid, {"property": self.pid, "signature": signature, "detail": payload})
        else:
            path = [v[1] for v in self.violations if v[0] == signature][0]
        self.violations.append((signature, path, text))

    def finish(self):
        for sig, f in sorted(self.known_hit.items()):
            log("KNOWN-FINDING: property=%s %s" % (self.pid, f["what"]))
        seen = set()
        for sig, path, text in self.violations:
            if sig in seen:
                continue
            seen.add(sig)
            if len(seen) > 20:
                break
            log("VIOLATION property=%s replay=%s" % (self.pid, path))
            log("  signature: %s %s" % (sig, text[:500]))
        return 1 if self.violations else 0


def write_evidence(pid, tier, seed, level, coverage, wall, violations, assumptions):
    ensure_dirs()
    ev = {"property_id": pid, "tier": tier, "seed": seed, "level": level, "coverage": coverage,
          "assumptions": assumptions, "wall_s": round(wall, 2), "violations": violations}
    with open(os.path.join(EVID, "%s.json" % pid), "w") as f:
        json.dump(ev, f, indent=1, sort_keys=True)
        f.write("\n")

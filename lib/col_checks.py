"""C08: the binary writer's class-column logic - MCBinaryColumns.tla (A), every enumerated population
on the real serializer (B), judged by BinaryFormat.tla."""
import json
import os
import time

from common import (OUT, Report, ToolError, build_harness, coverage_zero_actions, log, rbxv, replay_lines, tlc,
                    tlc_violation, write_evidence)
from bin_checks import export_db, validate_cases, report_fails, cleanup, _cfg, C01_CLAUSES

CONFIGS_QUICK = [
    # 4th element: a sibling of ANOTHER known class in the same file that carries the same property names and whose
    # database defaults differ (TrussPart.Size 2,2,2 / Part.Size 4,1.2,2; TextButton.Text "Button" / TextLabel.Text
    # "Label"): a column's default is the default of ITS class, whichever class the writer met first
    ("Part", ["Color", "Color3uint8", "BrickColor", "Size"], 2, ("TrussPart", ["Size", "Color"])),
    ("Part", ["Color3uint8", "brickColor"], 3),
    ("TextLabel", ["Font", "FontFace", "Text"], 2, ("TextButton", ["Text", "FontFace"])),
    ("ScreenGui", ["IgnoreGuiInset", "ScreenInsets"], 2),
    ("MeshPart", ["MeshId", "MeshContent", "TextureID"], 2),
    ("VerifUnknownClass", ["AlphaS", "BetaV", "GammaI"], 2),
    # a SharedString column without database default: the neutral (empty) value of the instance lacking it lives in the
    # file's SSTR table like every other
    ("VerifUnknownClass", ["DeltaH", "BetaV"], 2),
    # a legacy (migrating) spelling next to an unrelated property whose value has the migration's input type
    ("ScreenGui", ["IgnoreGuiInset", "ClipToDeviceSafeArea", "ScreenInsets"], 2),
    ("TextLabel", ["Font", "TextXAlignment", "FontFace"], 2),
    # a class whose properties have no database default: the column's neutral value, with Enum and EnumItem inputs
    ("Player", ["CameraMode", "DevComputerMovementMode", "TeamColor"], 2),
    # 5th element: the codec is configured with a database of one's own (Serializer / Deserializer::reflection_database):
    # a copy of the bundled one with other defaults for Part.Size / Color / Transparency, TrussPart.Size, TextLabel.Text.
    # The same patched database is exported for the specification, so "the database default for that class" is judged
    # against the database in use
    ("Part", ["Color", "Size", "Transparency"], 2, ("TrussPart", ["Size", "Color"]), True),
]
CONFIGS_THOROUGH = [
    # (six spellings x 2 instances = 4096 populations took TLC 39 minutes and the replay longer still: five here)
    ("Part", ["Color", "Color3uint8", "BrickColor", "brickColor", "size"], 2),
    ("Part", ["Color3uint8", "brickColor", "size"], 3),
    ("ScreenGui", ["IgnoreGuiInset", "ScreenInsets"], 3),
    ("Part", ["Color", "Color3uint8", "BrickColor"], 3),
    ("TextLabel", ["Font", "FontFace", "Text"], 3),
    ("ImageLabel", ["Image", "ImageContent", "ImageColor3"], 3),
    ("MeshPart", ["MeshId", "MeshContent", "TextureID", "TextureContent"], 2),
    ("VerifUnknownClass", ["AlphaS", "BetaV", "GammaI"], 3),
]


PROCESSES_QUICK = 3
PROCESSES_THOROUGH = 6


def col_cfg(name, cls, spellings, n, mig="sticky", alias="prefer_new_sorted", invs="AlwaysSucceeds OwnValues ColumnsExact ExplicitWins OrderFree PrintPop"):
    text = ('SPECIFICATION Spec\nCONSTANTS ClassName = "%s"\n Spellings = {%s}\n NumInst = %d\n MigrationRule = "%s"\n'
            ' AliasRule = "%s"\nINVARIANTS %s\nCHECK_DEADLOCK FALSE\n'
            % (cls, ", ".join('"%s"' % s for s in spellings), n, mig, alias, invs))
    return _cfg(name, text)


def run(pid, tier, seed, replay=None):
    t0 = time.time()
    quick = tier == "quick"
    rep = Report(pid)
    build_harness()
    db = export_db()
    env = env0 = {"DBJSON": db}
    states = transitions = total = 0
    mc_runs = []
    samples = []
    configs = CONFIGS_QUICK if quick else CONFIGS_QUICK + CONFIGS_THOROUGH

    # the model still exhibits both defects under the pre-fix rules (guards against vacuous invariants)
    r = tlc("MCBinaryColumns", col_cfg("col_old1", "Part", ["Color3uint8", "BrickColor"], 2, mig="last_writer_wins",
                                       invs="AlwaysSucceeds"), workers=4, env=env, timeout=600)
    if "Invariant AlwaysSucceeds is violated" not in r["out"]:
        raise ToolError("sanity: last_writer_wins migration rule no longer violates AlwaysSucceeds")
    r = tlc("MCBinaryColumns", col_cfg("col_old2", "Part", ["Color3uint8", "BrickColor"], 1, alias="any",
                                       invs="ExplicitWins"), workers=4, env=env, timeout=600)
    if "Invariant ExplicitWins is violated" not in r["out"]:
        raise ToolError("sanity: the 'any alias' rule no longer violates ExplicitWins")

    for ci, config in enumerate(configs):
        cls, spellings, n = config[:3]
        companion = config[3] if len(config) > 3 else None
        patched = len(config) > 4 and config[4]
        env = dict(env0)
        if patched:
            pdb = os.path.join(OUT, "db_patched.json")
            rbxv(["export-db", "--patched", 1], stdout_path=pdb)
            env["DBJSON"] = pdb
        r = tlc("MCBinaryColumns", col_cfg("col%d" % ci, cls, spellings, n), workers=10, env=env, timeout=3000,
                coverage=True, xmx="8g")
        v = tlc_violation(r)
        if v:
            rep.violation("spec|%s|%s" % (cls, v[:70]), {"class": cls, "spellings": spellings, "tlc": r["out"][-5000:]},
                          "TLC on MCBinaryColumns: " + v)
        zero = [a for a in coverage_zero_actions(r["out"]) if a in ("CollectProp", "NextInstance", "ChooseValues")]
        if zero:
            raise ToolError("vacuity: %s never taken for %s" % (zero, cls))
        states += r.get("distinct", 0)
        transitions += r.get("generated", 0)
        pops = replay_lines(r["out"])
        mc_runs.append({"class": cls, "spellings": spellings, "instances": n, "distinct": r.get("distinct"),
                        "populations": len(pops)})
        ops = os.path.join(OUT, "C08_pop_%d.ndjson" % ci)
        with open(ops, "w") as f:
            for i, p in enumerate(pops):
                case = json.loads(p)
                case["ep"] = "pop:%s:%d:%d" % (cls, ci, i)
                if companion:
                    case["companion"] = {"class": companion[0], "props": companion[1], "first": i % 2 == 0}
                f.write(json.dumps(case) + "\n")
        trace = os.path.join(OUT, "C08_pop_%d_trace.ndjson" % ci)
        # the property maps iterate in a per-process hash order: every population is executed in several
        # processes.  Process 0 is judged in full; of the others only the events that differ from process 0's
        # (none on a tree whose outcome is a function of the population) are judged as well.  Every event is
        # told the write outcome of the first event of its group (same multiset of instances, any sibling
        # order, any process): clause "orderfree" of BinaryFormatTrace (C08: success does not depend on order).
        base = None
        events = []
        for proc in range(PROCESSES_QUICK if quick else PROCESSES_THOROUGH):
            rbxv(["bin-pop"] + (["--patched", 1] if patched else []), stdin_path=ops, stdout_path=trace)
            evs = [json.loads(x) for x in open(trace) if x.strip()]
            for e in evs:
                e["ep"] = "%s:p%d" % (e["ep"], proc)
                if not v:
                    e["model_out"] = "ok"      # TLC verified AlwaysSucceeds for every population of this configuration
            if base is None:
                base = evs
                events += evs
            else:
                for a, b in zip(base, evs):
                    if {k: v for k, v in a.items() if k != "ep"} != {k: v for k, v in b.items() if k != "ep"}:
                        events.append(b)
        first_write = {}
        for e in events:
            g = json.dumps(sorted(json.dumps(sorted(p_[0] for p_ in inst["props"])) for inst in e["before"]["inst"]))
            w = e["modes"]["none"]["write"]
            if g in first_write:
                e["peer_write"] = first_write[g]
            else:
                first_write[g] = w
        with open(trace, "w") as f:
            for e in events:
                f.write(json.dumps(e) + "\n")
        nn, fails = validate_cases("BinaryFormatTrace", trace, dict(env, DIALECT="code", CLAUSES="roundtrip"))
        total += nn
        report_fails(rep, pid, fails, "code", C01_CLAUSES + ("orderfree",))
        if pops:
            samples.append({"class": cls, "population": json.loads(pops[len(pops) // 2])})
        for p in (ops, trace):
            cleanup(p, rep)
        log("[%s] %s %s x%d%s: %s states, %d populations replayed on rbx_binary" % (pid, cls, spellings, n, " (patched database)" if patched else "", r.get("distinct"), nn))

    rc = rep.finish()
    cov = {"states": states, "transitions": transitions, "traces_validated_against_impl": total, "samples": samples[:3],
           "model_checking_runs": mc_runs, "evaluations": total, "distinct_nontrivial": total,
           "rule": "every assignment of property-spelling subsets to the instances and every sibling order (the initial states of "
                   "MCBinaryColumns) is one population; all are distinct by construction; TLC additionally explores every "
                   "property-map and alias-set iteration order in the model",
           "exhaustive": True}
    write_evidence(pid, tier, seed, "model_checking", cov, time.time() - t0, len(rep.violations),
                   ["the model covers the listed classes/spellings; other classes are reached by the random generators of C01",
                    "values are distinct per instance so that a foreign value cannot pass for an own value"])
    return rc

"""C16: Reflection.tla over the whole exported database (A) + closure under the codecs (C)."""
import json
import os
import re
import time

from common import (OUT, Report, ToolError, build_harness, log, rbxv, tlc, write_evidence)
from bin_checks import export_db, validate_cases, report_fails, cleanup, _cfg, find_event


def run(pid, tier, seed, replay=None):
    t0 = time.time()
    quick = tier == "quick"
    rep = Report(pid)
    build_harness()
    db = export_db()
    d = json.load(open(db))
    counts = {"classes": len(d["classes"]), "enums": len(d["enums"]),
              "descriptors": sum(len(c["props"]) for c in d["classes"].values()),
              "defaults": sum(len(c["defaults"]) for c in d["classes"].values())}

    # ---- A: every entry of the database is one state; coherence is the invariant -----
    cfg = _cfg("refl", "SPECIFICATION Spec\nINVARIANTS Coherent LookupTotal\nCHECK_DEADLOCK FALSE\n")
    r = tlc("MCReflection", cfg, workers=8, env={"DBJSON": db}, timeout=1800, extra=["-continue"], xmx="8g")
    expected = counts["classes"] + counts["enums"] + counts["descriptors"] + counts["defaults"]
    if r.get("distinct") != expected:
        raise ToolError("MCReflection visited %s entries, database has %s\n%s" % (r.get("distinct"), expected, r["out"][-2000:]))
    for m in re.finditer(r"Invariant (\w+) is violated by the initial state:\s*\nitem = <<([^>]*)>>", r["out"]):
        item = [x.strip().strip('"') for x in m.group(2).split(",")]
        rep.violation("coherence|%s|%s|%s.%s" % (m.group(1), item[0], item[1], item[2]),
                      {"invariant": m.group(1), "item": item}, "database entry %s violates %s" % (item, m.group(1)))
    log("[%s] Reflection.tla: %d database entries checked (%s)" % (pid, expected, counts))

    # ---- a regenerated database: what comes back from the encodings rbx_reflector writes is the same database ----
    for how in ("msgpack",):      # JSON cannot carry the non-finite default values (serde_json writes null), it is output only
        again = os.path.join(OUT, "db_reencoded_%s.json" % how)
        rbxv(["export-db", "--reencode", how], stdout_path=again)
        d2 = json.load(open(again))
        if "reencode_error" in d2:
            rep.violation("reencode|%s|%s" % (how, re.sub(r"\d+", "N", d2["reencode_error"])[:60]), {"how": how, "error": d2["reencode_error"]},
                          "the database re-encoded as %s (as rbx_reflector writes it) cannot be read back: %s" % (how, d2["reencode_error"]))
        elif d2 != d:
            diff = [c for c in d["classes"] if d["classes"][c] != d2.get("classes", {}).get(c)][:5]
            rep.violation("reencode|%s|differs" % how, {"how": how, "classes": diff},
                          "the database re-encoded as %s reads back differently (e.g. classes %s)" % (how, diff))
        os.remove(again)
    log("[%s] re-encoded database (MessagePack, as rbx_reflector writes it) reads back identical" % pid)

    # ---- C: the library's own lookup functions answer what Reflection.tla computes ----
    ltrace = os.path.join(OUT, "C16_lookups.ndjson")
    rbxv(["db-lookups"], stdout_path=ltrace)
    nl, lfails = validate_cases("ReflectionLookupTrace", ltrace, {"DBJSON": db})
    for c in lfails:
        for k, cls, name, what in (c.get("issues") or [[0, "", "", c["clause"]]]):
            rep.violation("lookup|%s|%s.%s" % (what, cls, name), lambda c=c: {"case": c, "event": find_event(c["part"], c["ep"])},
                          "%s: %s(%s, %s) differs from Reflection.tla" % (c["ep"], what, cls, name))
    cleanup(ltrace, rep)
    log("[%s] lookups: superclasses / has_superclass / find_default_property of %d classes agree with Reflection.tla" % (pid, nl))

    # ---- C: closure under the binary codec -------------------------------------------
    env = {"DBJSON": db, "DIALECT": "code"}
    total = 0
    samples = []
    trace = os.path.join(OUT, "C16_defaults.ndjson")
    rbxv(["bin-cases", "--mode", "defaults"], stdout_path=trace)
    if quick:
        lines = open(trace).readlines()
        # a seed-rotated quarter of the classes, plus every class that brings a (property name, default value) pair
        # no class kept so far has: each distinct default of the database is written and read on every run
        pairs = [{json.dumps(p[:2]) for inst in json.loads(l)["before"]["inst"] for p in inst["props"]} for l in lines]
        chosen = {i for i in range(len(lines)) if (i + seed) % 4 == 0}
        seen = set().union(*[pairs[i] for i in chosen]) if chosen else set()
        for i in range(len(lines)):
            if i not in chosen and pairs[i] - seen:
                chosen.add(i)
                seen |= pairs[i]
        keep = [l for i, l in enumerate(lines) if i in chosen]
        open(trace, "w").writelines(keep)
    n, fails = validate_cases("BinaryFormatTrace", trace, env)
    total += n
    closure_report(rep, fails)
    samples.append({"kind": "class populated with its default properties", "ep": json.loads(open(trace).readline())["ep"]})
    cleanup(trace, rep)
    trace = os.path.join(OUT, "C16_descriptors.ndjson")
    rbxv(["bin-cases", "--mode", "descriptors", "--seed", seed], stdout_path=trace)
    if quick:
        lines = open(trace).readlines()
        keep = [l for i, l in enumerate(lines) if (i + seed) % 3 == 0]
        open(trace, "w").writelines(keep)
    n2, fails = validate_cases("BinaryFormatTrace", trace, env)
    total += n2
    closure_report(rep, fails)
    first = json.loads(open(trace).readline())
    samples.append({"kind": "one-property instances, every serializable descriptor",
                    "instances": [[i["class"], [p[0] for p in i["props"]]] for i in first["before"]["inst"]]})
    cleanup(trace, rep)
    # the same descriptors through the XML codec (default options), judged by XmlFormat.tla
    import xml_checks
    raw = os.path.join(OUT, "C16_xml_descriptors.ndjson")
    rbxv(["xml-cases", "--mode", "descriptors", "--seed", seed], stdout_path=raw)
    if quick:
        lines = open(raw).readlines()
        open(raw, "w").writelines([l for i, l in enumerate(lines) if (i + seed) % 3 == 0])
    tok = raw + ".tok"
    xml_checks.tokenise(raw, tok)
    n3, xfails = validate_cases("XmlFormatTrace", tok, {"DBJSON": db, "CLAUSES": "roundtrip"})
    total += n3
    for c in xfails:
        for k, cls, prop, what in (c.get("issues") or [[0, "", "", ""]]):
            rep.violation("closure-xml|%s|%s.%s|%s" % (c["clause"], cls, prop, what),
                          lambda c=c: {"case": c, "event": find_event(c["part"], c["ep"])},
                          "%s: XML closure, clause %s: %s.%s %s" % (c["ep"], c["clause"], cls, prop, what))
    cleanup(raw, rep)
    cleanup(tok, rep)
    log("[%s] closure: %d default-populated classes, %d descriptor cases through rbx_binary, %d through rbx_xml" % (pid, n, n2, n3))

    rc = rep.finish()
    cov = {"states": expected, "transitions": r.get("generated", expected), "traces_validated_against_impl": total,
           "samples": samples, "database": counts, "exhaustive": not quick,
           "evaluations": expected + total, "distinct_nontrivial": expected,
           "rule": "every class / descriptor / default / enum of the exported database is one TLC state (exhaustive); closure: "
                   "each class populated with its full default set and every serializable descriptor as a one-property instance "
                   "(quick tier: a seed-rotated quarter of the classes plus every class that adds a (property, default value) pair not yet covered, so every distinct default is exercised; a third of the descriptor cases) written and read by rbx_binary and judged by BinaryFormat.tla",
           "explanation": "the database is exported from the working tree on every run, so a regenerated database is checked as it is"}
    write_evidence(pid, tier, seed, "model_checking", cov, time.time() - t0, len(rep.violations),
                   ["export goes through the public rbx_reflection types", "XML closure is exercised by the C02/C06 checks"])
    return rc


def closure_report(rep, fails):
    for c in fails:
        issues = c.get("issues") or []
        if c["clause"].startswith("structure") and not issues:
            ev = find_event(c["part"], c["ep"])
            names = []
            try:
                for ch in ev["modes"]["none"]["file"]["chunks"]:
                    if ch["name"] == "PROP":
                        nl = ch["payload"][4] + 256 * ch["payload"][5]
                        names.append(bytes(ch["payload"][8:8 + nl]).decode(errors="replace"))
            except Exception:
                pass
            dups = sorted({n for n in names if names.count(n) > 1})
            issues = [[0, "", d, "duplicate-prop-chunk"] for d in dups] or [[0, "", "", "structure"]]
        if not issues:
            # a clause that failed as a whole (the writer or the reader refused the case): name the class of the case
            ev = find_event(c["part"], c["ep"])
            cls = ""
            try:
                cls = ev["before"]["inst"][0]["class"]
            except Exception:
                pass
            issues = [[0, cls, "", "refused"]]
        for k, cls, prop, what in issues:
            base = c["clause"].split("-")[0]
            rep.violation("closure|%s|%s.%s|%s" % (base, cls, prop, what),
                          lambda c=c: {"case": c, "event": find_event(c["part"], c["ep"])},
                          "%s: %s %s.%s %s" % (c["ep"], c["clause"], cls, prop, what))

"""C06 (binary vs XML) and C15 (four migration paths), judged by CrossFormatTrace.tla."""
import json
import os
import time

from common import (OUT, Report, ToolError, build_harness, log, rbxv, tlc, write_evidence)
from bin_checks import export_db, validate_cases, cleanup, find_event, _cfg


def run(pid, tier, seed, replay=None):
    t0 = time.time()
    quick = tier == "quick"
    rep = Report(pid)
    build_harness()
    db = export_db()
    env = {"DBJSON": db}
    samples = []
    total = 0
    nontrivial = 0
    extra = {}
    if pid == "C06":
        plans = [(seed, 300 if quick else 6000, 5, False), (seed + 7, 60 if quick else 1500, 4, True)]
        for sd, count, maxi, convert in plans:
            trace = os.path.join(OUT, "C06_cross_%d.ndjson" % int(convert))
            rbxv(["cross-cases", "--seed", sd, "--count", count, "--max-instances", maxi, "--convert", int(convert)],
                 stdout_path=trace)
            n, fails = validate_cases("CrossFormatTrace", trace, env)
            total += n
            for c in fails:
                for k, cls, prop, what in (c.get("issues") or [[0, "", "", ""]]):
                    rep.violation("%s|%s.%s|%s" % (c["clause"], cls, prop, what),
                                  lambda c=c: {"case": c, "event": find_event(c["part"], c["ep"])},
                                  "%s: %s %s.%s %s" % (c["ep"], c["clause"], cls, prop, what))
            seen = set()
            for i, l in enumerate(open(trace)):
                e = json.loads(l)
                key = hash(json.dumps(e["before"], sort_keys=True))
                if key not in seen and sum(len(x["props"]) for x in e["before"]["inst"]) >= 1:
                    seen.add(key)
                if i == 0:
                    samples.append({"convert": convert, "instances": [[x["class"], [p[0] for p in x["props"]]] for x in e["before"]["inst"]]})
            nontrivial += len(seen)
            cleanup(trace, rep)
            log("[C06] %d DOMs through both formats%s" % (n, " and converted there and back" if convert else ""))
        # every serializable non-migrating descriptor once (descriptor sweep), both formats
        trace = os.path.join(OUT, "C06_desc.ndjson")
        rbxv(["cross-cases", "--seed", seed + 3, "--count", 0, "--descriptors", 1], stdout_path=trace, check=False)
        if os.path.exists(trace) and os.path.getsize(trace) > 0:
            lines = open(trace).readlines()
            if quick:
                lines = [l for i, l in enumerate(lines) if (i + seed) % 3 == 0]
                open(trace, "w").writelines(lines)
            n, fails = validate_cases("CrossFormatTrace", trace, env)
            total += n
            extra["descriptor_cases"] = n
            for c in fails:
                for k, cls, prop, what in (c.get("issues") or [[0, "", "", ""]]):
                    rep.violation("%s|%s.%s|%s" % (c["clause"], cls, prop, what),
                                  lambda c=c: {"case": c, "event": find_event(c["part"], c["ep"])},
                                  "%s: %s %s.%s %s" % (c["ep"], c["clause"], cls, prop, what))
            cleanup(trace, rep)
        # the edge values of every type, written out (not sampled), both formats
        trace = os.path.join(OUT, "C06_bound.ndjson")
        rbxv(["cross-cases", "--count", 4 if quick else 40, "--boundary", 1], stdout_path=trace)
        n, fails = validate_cases("CrossFormatTrace", trace, env)
        total += n
        extra["boundary_cases"] = n
        for c in fails:
            for k, cls, prop, what in (c.get("issues") or [[0, "", "", ""]]):
                rep.violation("%s|%s.%s|%s" % (c["clause"], cls, prop, what),
                              lambda c=c: {"case": c, "event": find_event(c["part"], c["ep"])},
                              "%s: %s %s.%s %s" % (c["ep"], c["clause"], cls, prop, what))
        cleanup(trace, rep)
        # huge exact-identity forests (17 000 instances, values of more than a mebibyte, 66 000 keypoints), by fingerprint
        trace = os.path.join(OUT, "C06_huge.ndjson")
        rbxv(["cross-cases", "--seed", seed + 9, "--count", 4 if quick else 24, "--huge", 1], stdout_path=trace)
        n, fails = validate_cases("CrossFormatTrace", trace, env, shards=1)
        total += n
        extra["huge_cases"] = n
        for c in fails:
            rep.violation("%s|huge" % c["clause"], lambda c=c: {"case": c, "event": find_event(c["part"], c["ep"])},
                          "%s: %s (huge forest, compared by fingerprint)" % (c["ep"], c["clause"]))
        cleanup(trace, rep)
    else:
        trace = os.path.join(OUT, "C15_mig.ndjson")
        rbxv(["mig-cases", "--stride", 4 if quick else 1], stdout_path=trace)
        n, fails = validate_cases("CrossFormatTrace", trace, env)
        total += n
        nontrivial = n
        for c in fails:
            ev = find_event(c["part"], c["ep"])
            legacy_val = None
            try:
                for p in ev["before"]["inst"][ev.get("focus", 1) - 1]["props"]:
                    if p[0] == ev["legacy"]:
                        legacy_val = p[1]
            except Exception:
                pass
            for k, cls, prop, what in (c.get("issues") or [[0, "", "", ""]]):
                sig = "migration|%s.%s|%s" % (cls, prop, what)
                if ev and ev.get("migop") == "FontToFontFace" and legacy_val and legacy_val["t"] == "Enum" and \
                        (what.endswith(":failed") or what.endswith(":new-property-missing")):
                    sig = "unmigratable|Enum.Font|%d" % int.from_bytes(bytes(legacy_val["v"]), "big")
                rep.violation(sig, lambda c=c, ev=ev: {"case": c, "event": ev},
                              "%s: %s.%s %s" % (c["ep"], cls, prop, what))
        first = json.loads(open(trace).readline())
        samples.append({"ep": first["ep"], "class": first["class"], "legacy": first["legacy"], "target": first["target"],
                        "paths": sorted(first["paths"].keys())})
        descs = set()
        for l in open(trace):
            e = json.loads(l)
            descs.add((e["class"], e["legacy"]))
        extra["migrating_descriptors"] = sorted("%s.%s" % d for d in descs)
        cleanup(trace, rep)
        log("[C15] %d (descriptor, legacy value, explicit?) cases through the four paths, both orders" % n)
        # the binary write path's alias choice is additionally model-checked in C08 (ExplicitWins)
    rc = rep.finish()
    cov = {"programs": total, "disagreements_checked": len(rep.violations) + len(rep.known_hit), "samples": samples,
           "evaluations": total, "distinct_nontrivial": nontrivial, "traces_validated_against_impl": total,
           "states": total, "transitions": total,
           "rule": ("random DOMs over database classes with serializable non-migrating properties (canonical and alias spellings), "
                    "values valid in both formats; distinct forests with at least one explicit property"
                    if pid == "C06" else
                    "every Migrate descriptor of the exported database x every legacy value (all Enum.Font items, all BrickColor "
                    "numbers (strided in the quick tier), both booleans, URIs incl. empty) x {legacy only, legacy + explicit new}; "
                    "each case = 6 decoded DOMs (write-binary, write-XML, read-binary in both chunk orders, read-XML in both element orders)"),
           "exhaustive": pid == "C15" and not quick}
    cov.update(extra)
    write_evidence(pid, tier, seed, "model_checking", cov, time.time() - t0, len(rep.violations),
                   ["read paths use files that still contain the legacy name: written by rbx_binary with an empty database / by rbx_xml with NoReflection",
                    "the Font enum -> Font face table is uninterpreted: agreement between paths is required, not particular families"])
    return rc

"""C17: serde / text encodings judged by TextForms.tla (A) and TextTrace.tla (C)."""
import json
import os
import time

from common import (OUT, Report, ToolError, build_harness, log, rbxv, tlc, write_evidence)
from bin_checks import validate_cases, cleanup, find_event, _cfg


def run(pid, tier, seed, replay=None):
    t0 = time.time()
    quick = tier == "quick"
    rep = Report(pid)
    build_harness()
    # A: text form of UniqueId at width 8 (all 256 values), bit-set/name-list bijection (all 64 + 8 values)
    cfg = _cfg("text", 'SPECIFICATION Spec\nCONSTANTS Width = 8\n Parser = "unsigned_reinterpret"\nINVARIANTS Holds\nCHECK_DEADLOCK FALSE\n')
    r = tlc("TextForms", cfg, workers=1, timeout=600)
    if "Invariant Holds is violated" in r["out"] or "invariant of Holds is equal to FALSE" in r["out"]:
        rep.violation("spec|TextForms", {"tlc": r["out"][-3000:]}, "TextForms: round trip fails at width 8")
    cfg = _cfg("text_old", 'SPECIFICATION Spec\nCONSTANTS Width = 8\n Parser = "signed"\nINVARIANTS Holds\nCHECK_DEADLOCK FALSE\n')
    r2 = tlc("TextForms", cfg, workers=1, timeout=600)
    if "Invariant Holds is violated" not in r2["out"] and "invariant of Holds is equal to FALSE" not in r2["out"]:
        raise ToolError("sanity: the signed parser model no longer violates the UniqueId round trip")
    trace = os.path.join(OUT, "C17_serde.ndjson")
    rbxv(["serde-cases", "--seed", seed, "--per-type", 12 if quick else 400], stdout_path=trace)
    n, fails = validate_cases("TextTrace", trace, {})
    counts = {}
    variants = set()
    for l in open(trace):
        e = json.loads(l)
        counts[e["op"]] = counts.get(e["op"], 0) + 1
        if e["op"] == "serde":
            variants.add(e["variant"])
    by = {}
    for c in fails:
        ev = find_event(c["part"], c["ep"])
        if ev["op"] == "serde":
            sig = "serde|%s|%s|%s" % (ev["variant"], ev["entry"], ev["outcome"])
        elif ev["op"] == "lua":
            sig = "lua|%s|%s" % (ev["sample"], ev["outcome"])
        elif ev["op"] == "text":
            sig = "text|%s|%s" % (ev["kind"], ev["outcome"])
        elif ev["op"] == "bitset":
            sig = "bitset|%s" % ev["kind"]
        else:
            sig = "%s|%s" % (ev["op"], ev.get("kind", ""))
        rep.violation(sig, {"event": ev}, "%s: %s" % (c["ep"], ev.get("detail", "value changed")))
    samples = [json.loads(open(trace).readline())]
    cleanup(trace, rep)
    log("[C17] %d events judged: %s; %d Variant types" % (n, counts, len(variants)))
    rc = rep.finish()
    cov = {"evaluations": n, "distinct_nontrivial": n, "samples": samples, "events_by_kind": counts, "variant_types": sorted(variants),
           "rule": "every implemented Variant type x generated values x {json str, slice, reader, Value (finite floats), bincode, "
                   "MessagePack}; UniqueId/Ref text forms incl. negative random; all u16 BrickColor numbers; all Faces/Axes bit sets; "
                   "Tags/MaterialColors blobs; all samples of rbx_dom_lua/src/allValues.json; each event is a distinct case",
           "model_states": r.get("distinct", 0), "exhaustive": False}
    write_evidence(pid, tier, seed, "exploration", cov, time.time() - t0, len(rep.violations),
                   ["serde_json is built with float_roundtrip in the harness (its default float parser is not exactly rounding; third-party)",
                    "the generic serde derives are identity checks; the specification adds the bit-set name tables and the text-form model"])
    return rc

"""C02 / C05: the XML codec judged by XmlFormat.tla (documents tokenised by an independent parser)."""
import json
import os
import re
import subprocess
import time

from common import (OUT, VERIF, Report, ToolError, build_harness, log, rbxv, write_evidence)
from bin_checks import export_db, validate_cases, cleanup, find_event

TOK = os.path.join(VERIF, "tools", "xmltok.py")


def tokenise(src, dst):
    with open(src, "rb") as fin, open(dst, "wb") as fout:
        p = subprocess.run(["python3", TOK], stdin=fin, stdout=fout, stderr=subprocess.PIPE)
    if p.returncode != 0:
        raise ToolError("xmltok failed: " + p.stderr.decode()[-2000:])


def _item(ev, item_pos):
    def items(n, acc):
        for k in n["kids"]:
            if k["tag"] == "Item":
                acc.append(k)
                items(k, acc)
        return acc
    return items(ev["doc"]["kids"][0], [])[item_pos - 1]


def cr_normalised_string(ev, k, prop):
    """diagnosis only: is the document's text for (item k, element named prop) the CR/CRLF->LF normalisation
    of a string the before-forest holds on that instance (under whatever spelling) that contains a CR?"""
    try:
        b = ev["before"]["inst"][k - 1]
        cands = [bytes(b["name"])] if prop == "Name" else []
        cands += [bytes(p[1]["v"]) for p in b["props"] if p[1]["t"] in ("String", "ContentId") and isinstance(p[1]["v"], list)]
        cands = [c for c in cands if b"\r" in c]
        if not cands:
            return False
        props = [x for x in _item(ev, k)["kids"] if x["tag"] == "Properties"][0]
        for el in props["kids"]:
            if dict((a[0], a[1]) for a in el["attrs"]).get("name") != prop:
                continue
            # ContentId nests the text in a url element
            texts = [bytes(el["text"]["raw"])] + [bytes(x["text"]["raw"]) for x in el["kids"]]
            for c in cands:
                if c.replace(b"\r\n", b"\n").replace(b"\r", b"\n") in texts:
                    return True
    except Exception:
        pass
    return False


def bad_float_spelling(ev, item_pos, name):
    """diagnosis only: non-document float spellings inside a rejected type element"""
    found = set()

    try:
        it = _item(ev, item_pos)
        props = [k for k in it["kids"] if k["tag"] == "Properties"][0]
        for el in props["kids"]:
            if dict((a[0], a[1]) for a in el["attrs"]).get("name") != name:
                continue

            def walk(n):
                s = bytes(n["text"]["raw"]).decode(errors="replace").strip()
                if s in ("inf", "-inf", "NaN", "+inf"):
                    found.add(s)
                for k in n["kids"]:
                    walk(k)
            walk(el)
    except Exception:
        pass
    return found


C02_CLAUSES = ("write", "read", "roundtrip", "rootclass")
C05_CLAUSES = ("wellformed", "docinv", "docmeans")


def report(rep, pid, fails, clauses):
    for c in fails:
        if c["clause"] == "judge-error":
            rep.violation("judge-error|%s" % re.sub(r"\d+", "N", c.get("error", ""))[:80],
                          lambda c=c: {"case": c, "event": find_event(c["part"], c["ep"])},
                          "%s: XmlFormat.tla cannot evaluate this case (%s)" % (c["ep"], c.get("error", "")))
            continue
        if c["clause"] not in clauses:
            continue
        issues = c.get("issues") or [[0, "", "", ""]]
        ev = None
        for k, cls, prop, what in issues:
            sig = "%s|%s.%s|%s" % (c["clause"], cls, prop, what)
            if c["clause"] == "docmeans" and what in ("name", "not-stored-as-written"):
                ev = ev or find_event(c["part"], c["ep"])
                if cr_normalised_string(ev, k, prop):
                    sig = "docmeans|string-with-carriage-return"
            if c["clause"] == "docinv" and what in ("CoordinateFrame", "OptionalCoordinateFrame"):
                ev = ev or find_event(c["part"], c["ep"])
                sp = bad_float_spelling(ev, k, prop)
                if sp:
                    sig = "docinv|%s|float-spelling" % what
            rep.violation(sig, lambda c=c: {"case": c, "event": find_event(c["part"], c["ep"])},
                          "%s: clause %s failed: %s" % (c["ep"], c["clause"], [k, cls, prop, what]))


def run(pid, tier, seed, replay=None):
    t0 = time.time()
    quick = tier == "quick"
    rep = Report(pid)
    build_harness()
    db = export_db()
    env = {"DBJSON": db, "CLAUSES": "roundtrip" if pid == "C02" else "doc"}
    clauses = C02_CLAUSES if pid == "C02" else C05_CLAUSES
    total = 0
    samples = []
    nontrivial = set()
    plans = [("known", seed, 250 if quick else 4000, 6), ("unknown", seed + 1, 120 if quick else 1500, 5),
             ("noreflection", seed + 2, 120 if quick else 1500, 5), ("mixed", seed + 3, 200 if quick else 3000, 8),
             ("shapes", seed + 4, 60 if quick else 800, 6),
             ("boundary", 0, 4 if quick else 40, 6),     # the edge values of every type, written out (not sampled)
             # values of more than a mebibyte; long byte strings reach TLC as digests (tools/xmltok.py shrink)
             ("bigvalues", seed + 9, 3 if quick else 12, 6)]
    if pid == "C02":
        # every serializable descriptor (canonical and alias spellings) as a one-property instance, default options
        plans.append(("descriptors", seed + 8, 0, 6))
        plans.append(("scale", seed + 6, 10 if quick else 200, 6))     # several hundred Items per document
        plans.append(("huge", seed + 7, 4 if quick else 24, 6))        # fingerprinted huge exact-identity forests
    for mode, sd, count, maxi in plans:
        raw = os.path.join(OUT, "%s_xml_%s.ndjson" % (pid, mode))
        tok = raw + ".tok"
        rbxv(["xml-cases", "--seed", sd, "--count", count, "--max-instances", maxi, "--mode", mode], stdout_path=raw)
        if mode == "descriptors" and quick:
            lines = open(raw).readlines()
            open(raw, "w").writelines([l for i, l in enumerate(lines) if (i + seed) % 2 == 0])
        tokenise(raw, tok)
        n, fails = validate_cases("XmlFormatTrace", tok, env)
        total += n
        report(rep, pid, fails, clauses)
        with open(raw) as f:
            for i, l in enumerate(f):
                e = json.loads(l)
                if "before" not in e:        # fingerprinted huge case
                    nontrivial.add(hash(l))
                    continue
                insts = e["before"]["inst"]
                types = {p[1]["t"] for x in insts for p in x["props"]}
                if len(insts) >= 2 or types & {"Ref", "SharedString", "String", "Float32", "CFrame"}:
                    nontrivial.add(hash(json.dumps(e["before"], sort_keys=True)))
                if i == 1:
                    samples.append({"mode": mode, "enc": e["enc"], "dec": e["dec"], "text": e.get("text", "")[:600]})
        cleanup(raw, rep)
        cleanup(tok, rep)
        log("[%s] %s: %d cases judged by XmlFormat.tla" % (pid, mode, n))

    if pid == "C02":
        # dedicated probe for a value the generators keep out of XML cases (recorded finding)
        raw = os.path.join(OUT, "C02_probe.ndjson")
        rbxv(["xml-cases", "--mode", "probe-content-object"], stdout_path=raw)
        ev = json.loads(open(raw).readline())
        if ev.get("write") == "panic":
            rep.violation("probe|content-object|write-panic", {"event": ev}, "rbx_xml panicked writing Content::Object")
        elif ev.get("write") == "ok":
            tok = raw + ".tok"
            tokenise(raw, tok)
            n, fails = validate_cases("XmlFormatTrace", tok, env, shards=1)
            report(rep, pid, fails, clauses)
            cleanup(tok, rep)
        cleanup(raw, rep)

    foreign = None
    if pid == "C05":
        foreign = foreign_documents(rep, env, quick, seed)
        total += foreign["documents"]

    rc = rep.finish()
    cov = {"programs": total, "disagreements_checked": len(rep.violations) + len(rep.known_hit), "samples": samples[:3],
           "evaluations": total, "distinct_nontrivial": len(nontrivial), "traces_validated_against_impl": total,
           "states": total, "transitions": total,
           "rule": "random DOMs over database classes (default options), unknown classes (WriteUnknown+ReadUnknown), NoReflection both "
                   "ways, and mixed; XML-legal strings incl. ']]>', markup, CR/LF, outer whitespace; sequences with >= 2 keypoints; "
                   "non-trivial = distinct forests with >= 2 instances or a Ref/SharedString/String/float/CFrame value",
           "explanation": "the text rbx_xml wrote is parsed by expat (tools/xmltok.py) into a token tree with type-agnostic lexical "
                          "views (exact decimal->binary rounding); TLC evaluates DocInvariants, DocIssues (C05) and XmlRoundTripIssues (C02)"}
    if foreign:
        cov["foreign_documents"] = foreign
    write_evidence(pid, tier, seed, "model_checking", cov, time.time() - t0, len(rep.violations),
                   ["the lexical layer (escaping, CDATA, decimal text) is read by expat and exact rational arithmetic, outside TLA+",
                    "value spaces are sampled"])
    return rc


def foreign_documents(rep, env, quick, seed):
    """C05, reader direction: documents from an independent generator written from docs/xml.md."""
    gen = os.path.join(VERIF, "tools", "foreign_xml.py")
    cases = os.path.join(OUT, "C05_foreign_cases.ndjson")
    with open(cases, "wb") as f:
        p = subprocess.run(["python3", gen, "--seed", str(seed), "--count", str(150 if quick else 3000)], stdout=f,
                           stderr=subprocess.PIPE)
    if p.returncode != 0:
        raise ToolError("foreign_xml generator failed: " + p.stderr.decode()[-2000:])
    trace = os.path.join(OUT, "C05_foreign_trace.ndjson")
    rbxv(["xml-foreign"], stdin_path=cases, stdout_path=trace)
    tok = trace + ".tok"
    tokenise(trace, tok)
    n, fails = validate_cases("XmlForeignTrace", tok, env)
    for c in fails:
        if c["clause"].startswith("generator"):
            raise ToolError("the foreign XML generator does not satisfy XmlFormat.tla itself: %s" % c)
        for k, cls, prop, what in (c.get("issues") or [[0, "", "", ""]]):
            rep.violation("foreign|%s|%s.%s|%s" % (c["clause"], cls, prop, what),
                          lambda c=c: {"case": c, "event": find_event(c["part"], c["ep"])},
                          "%s: rbx_xml read a spec-conformant foreign document differently: %s %s" % (c["ep"], c["clause"], [k, cls, prop, what]))
    for p_ in (cases, trace, tok):
        cleanup(p_, rep)
    log("[C05] foreign documents: %d generated from docs/xml.md, checked by XmlFormat.tla, read by rbx_xml" % n)
    return {"documents": n}

"""C13: fault enumeration - truncation at every offset, TLC-generated delivery schedules, failing sinks,
structured mutations, deep nesting, random bytes.  Outcome classes judged by FaultTrace.tla."""
import json
import os
import re
import subprocess
import time

from common import (OUT, RBXV, Report, ToolError, build_harness, log, replay_lines, tlc, tlc_violation, write_evidence)
from bin_checks import validate_cases, cleanup, find_event, _cfg


def run_faults(args, out_path, stdin_path=None, case_timeout=20, mem_gb=2):
    """Run `rbxv faults ...` with an address-space limit, restarting after aborts / hangs.
    Returns the list of events; cases that killed the process get outcome 'abort' / 'timeout'."""
    events = []
    start_at = 0
    restarts = 0
    while True:
        env = dict(os.environ, RBXV_START_AT=str(start_at), RUST_BACKTRACE="1")
        cmd = "ulimit -v %d; exec %s faults %s" % (mem_gb * 1024 * 1024, RBXV, " ".join(str(a) for a in args))
        fin = open(stdin_path, "rb") if stdin_path else subprocess.DEVNULL
        p = subprocess.Popen(["bash", "-c", cmd], stdin=fin, stdout=subprocess.PIPE, stderr=subprocess.PIPE, env=env)
        last_start = None
        last_time = time.time()
        killed = None
        import selectors
        sel = selectors.DefaultSelector()
        sel.register(p.stdout, selectors.EVENT_READ)
        buf = b""
        while True:
            ready = sel.select(timeout=case_timeout)
            if not ready:
                killed = "timeout"
                p.kill()
                break
            chunk = os.read(p.stdout.fileno(), 1 << 16)
            if not chunk:
                break
            buf += chunk
            while b"\n" in buf:
                line, buf = buf.split(b"\n", 1)
                if not line.strip():
                    continue
                e = json.loads(line)
                if e["op"] == "start":
                    last_start = e
                else:
                    events.append(e)
                    if last_start and e.get("ep") == last_start.get("ep"):
                        last_start = None
        p.wait()
        if stdin_path:
            fin.close()
        if killed is None and p.returncode == 0:
            return events, restarts
        if last_start is None:
            raise ToolError("fault runner died outside a case (rc=%s): %s" % (p.returncode, p.stderr.read().decode()[-800:]))
        err_full = p.stderr.read().decode(errors="replace") if p.stderr else ""
        err = abort_site(err_full)
        kind = last_start["ep"].split(":")[0]
        events.append({"op": "fault", "ep": last_start["ep"], "kind": {"trunc": "truncate", "sched": "schedule", "sink": "sinkfail",
                       "mut": "mutate", "depth": "depth", "rand": "random", "struct": "structure"}.get(kind, kind),
                       "target": last_start["ep"].split(":")[1], "outcome": killed or "abort",
                       "site": err,
                       "whole_outcome": "", "whole_digest": "", "digest": ""})
        start_at = last_start["n"] + 1
        restarts += 1
        if restarts > 20000:
            raise ToolError("fault runner keeps dying (more than 20000 restarts)")


def abort_site(stderr_text):
    """what killed the process and the first frame of the code under test on the stack"""
    what = ""
    for line in stderr_text.splitlines():
        if "memory allocation of" in line:
            what = "memory allocation failed"
        elif "capacity overflow" in line:
            what = "capacity overflow"
        elif "stack overflow" in line or "overflowed its stack" in line:
            what = "stack overflow"
    frame = ""
    for line in stderr_text.splitlines():
        m = re.search(r"\d+:\s+(<?rbx_[\w:<>, ]+)", line)
        if m:
            frame = re.sub(r"<[^>]*>", "", m.group(1)).strip()
            break
    return ("%s in %s" % (what or "process died", frame or "?"))[:100]


def signature(e):
    site = e.get("site", "")
    site = re.sub(r"\s+", " ", site)[:110]
    if e["outcome"] in ("panic", "abort", "timeout"):
        return "%s|%s|%s|%s" % (e["kind"], e["target"], e["outcome"], site)
    return "%s|%s|%s" % (e["kind"], e["target"], e["outcome"])


def run(pid, tier, seed, replay=None):
    t0 = time.time()
    quick = tier == "quick"
    rep = Report(pid)
    build_harness()
    # A: the reference reader is schedule-independent and detects truncation; its schedules are the replay set
    scheds = []
    states = 0
    for len0, need in ((4, 4), (5, 5), (3, 5)) if not quick else ((4, 4), (3, 5)):
        cfg = _cfg("io", "SPECIFICATION Spec\nCONSTANTS Len0 = %d\n Need = %d\n MaxInterrupts = 2\n"
                         "INVARIANTS PrefixOnly ScheduleFree TruncationDetected Complete PrintSchedule\nCHECK_DEADLOCK FALSE\n" % (len0, need))
        r = tlc("IoFaults", cfg, workers=2, timeout=600)
        v = tlc_violation(r)
        if v:
            rep.violation("spec|IoFaults|" + v[:60], {"tlc": r["out"][-3000:]}, v)
        states += r.get("distinct", 0)
        if need <= len0:
            scheds += [json.loads(x) for x in replay_lines(r["out"])]
    sched_path = os.path.join(OUT, "C13_schedules.ndjson")
    uniq = {json.dumps({"sizes": s["sizes"], "interrupts": s["interrupts"]}) for s in scheds}
    uniq |= {json.dumps({"sizes": [1], "interrupts": []}), json.dumps({"sizes": [1], "interrupts": [0, 2, 4, 6, 8]}),
             json.dumps({"sizes": [7, 1, 3], "interrupts": [1, 5]}), json.dumps({"sizes": [4096], "interrupts": []})}
    with open(sched_path, "w") as f:
        for s in sorted(uniq):
            f.write(s + "\n")

    step = 3 if quick else 1
    all_events = []
    plan = [(["--kind", "truncate", "--step", 1], None),
            (["--kind", "schedule"], sched_path),
            (["--kind", "sinkfail", "--step", 2 if quick else 1], None),
            (["--kind", "mutate", "--step", 1, "--u32-step", 4 if quick else 1], None),
            (["--kind", "structure"], None),
            (["--kind", "depth", "--depths", "10,100,1000" if quick else "10,100,1000,10000,100000"], None),
            (["--kind", "random", "--seed", seed, "--count", 3000 if quick else 200000], None)]
    restarts_total = 0
    for args, stdin in plan:
        evs, restarts = run_faults(args, None, stdin_path=stdin, case_timeout=30 if quick else 120)
        restarts_total += restarts
        # attribute blobs are not files: zero bytes legitimately decode to the empty map
        evs = [e for e in evs if not (e["kind"] == "truncate" and e["target"] == "attr" and e.get("at") == 0)]
        all_events += evs
        log("[C13] %s: %d cases (%d process restarts after aborts/hangs)" % (args[1], len(evs), restarts))
    trace = os.path.join(OUT, "C13_trace.ndjson")
    with open(trace, "w") as f:
        for e in all_events:
            e.pop("bytes", None) if e.get("outcome") != "panic" else None
            f.write(json.dumps(e) + "\n")
    n, fails = validate_cases("FaultTrace", trace, {})
    by_ep = {e["ep"]: e for e in all_events}
    for c in fails:
        e = by_ep.get(c["ep"], {"kind": "?", "target": "?", "outcome": "?"})
        rep.violation(signature(e), {"event": e}, "%s: outcome %s not allowed for %s (%s)" % (c["ep"], e.get("outcome"), e.get("kind"), e.get("site", "")))
    kinds = {}
    for e in all_events:
        kinds.setdefault(e["kind"], {}).setdefault(e["outcome"], 0)
        kinds[e["kind"]][e["outcome"]] += 1
    samples = [all_events[len(all_events) // 7], all_events[len(all_events) // 2]]
    for s in samples:
        s.pop("bytes", None)
    cleanup(trace, rep)
    rc = rep.finish()
    cov = {"evaluations": len(all_events), "distinct_nontrivial": len(all_events) - kinds.get("whole", {}).get("ok", 0),
           "rule": "truncation at every (quick: every 2nd) byte offset of valid binary (none/lz4/zstd), XML and attribute inputs; every "
                   "maximal delivery schedule of IoFaults.tla (short reads + Interrupted) cycled over each input; sink failure at every "
                   "(quick: every 4th) output offset; byte and u32-field mutations {0,1,v-1,v+1,2^31-1,2^32-1} at every (quick: every 6th) "
                   "offset; nesting depths; seeded random bytes/mutations/splices; every case is distinct by construction",
           "samples": samples, "outcomes_by_kind": kinds, "schedules_from_tlc": len(uniq), "model_states": states,
           "process_restarts": restarts_total, "exhaustive": not quick}
    write_evidence(pid, tier, seed, "fault_enumeration", cov, time.time() - t0, len(rep.violations),
                   ["cases run in a child process with a 2 GiB address-space limit; an abort or a hang is attributed to the case announced last",
                    "random bytes are explored, not exhausted; memory safety is not addressed"])
    return rc

"""C04: spec-conformant foreign binary files (MCForeignBinary.tla -> foreign encoder -> BinaryWire check -> rbx_binary reader)."""
import json
import os
import random
import time

from common import (OUT, Report, ToolError, build_harness, log, rbxv, replay_lines, tlc, tlc_violation, write_evidence)
from bin_checks import export_db, validate_cases, cleanup, _cfg, find_event


def run(pid, tier, seed, replay=None):
    t0 = time.time()
    quick = tier == "quick"
    rep = Report(pid)
    build_harness()
    db = export_db()
    rng = random.Random(seed)
    total = states = 0
    samples = []
    enumerated = {}
    for group, cap in ((1, 400 if quick else 12000), (2, 450 if quick else 6000)):
        cfg = _cfg("foreign%d" % group, "SPECIFICATION Spec\nCONSTANTS Group = %d\nINVARIANTS WellFormedCase PrintCase\nCHECK_DEADLOCK FALSE\n" % group)
        r = tlc("MCForeignBinary", cfg, workers=6, timeout=1800, xmx="8g")
        v = tlc_violation(r)
        if v:
            raise ToolError("MCForeignBinary: " + v)
        cases = replay_lines(r["out"])
        enumerated[group] = len(cases)
        states += r.get("distinct", 0)
        rng.shuffle(cases)
        cases = cases[:cap]
        ops = os.path.join(OUT, "C04_cases_%d.ndjson" % group)
        with open(ops, "w") as f:
            for i, c in enumerate(cases):
                d = json.loads(c)
                d["ep"] = "foreign:%d:%d" % (group, i)
                f.write(json.dumps(d) + "\n")
        trace = os.path.join(OUT, "C04_trace_%d.ndjson" % group)
        rbxv(["foreign-bin"], stdin_path=ops, stdout_path=trace)
        n, fails = validate_cases("ForeignBinaryTrace", trace, {"DBJSON": db})
        total += n
        for c in fails:
            if c["clause"].startswith("encoder"):
                raise ToolError("the foreign encoder itself does not satisfy BinaryWire/BinaryFormat (%s): %s" % (c["clause"], c))
            for iss in (c.get("issues") or [[0, "", "", ""]]):
                rep.violation("foreign|%s|%s.%s|%s" % (c["clause"], iss[1], iss[2], iss[3]),
                              lambda c=c: {"case": c, "event": find_event(c["part"], c["ep"])},
                              "%s: reader result differs from the forest the file describes: %s %s" % (c["ep"], c["clause"], iss))
        d0 = json.loads(cases[0])
        samples.append({"group": group, "classes": d0["classes"], "referents": d0["referents"],
                        "chunks": d0["chunks"], "prnt": d0["prnt"], "methods": d0["methods"]})
        for p in (ops, trace):
            cleanup(p, rep)
        log("[%s] group %d: %d of %d abstract files concretised, checked by BinaryWire, read by rbx_binary" % (pid, group, n, enumerated[group]))
    rc = rep.finish()
    cov = {"states": states, "transitions": states, "traces_validated_against_impl": total, "samples": samples,
           "enumerated_abstract_files": enumerated, "evaluations": total, "distinct_nontrivial": total,
           "rule": "abstract files are the initial states of MCForeignBinary.tla (all combinations within a group of freedoms); distinct by construction; quick tier replays a seeded sample",
           "exhaustive": not quick}
    write_evidence(pid, tier, seed, "model_checking", cov, time.time() - t0, len(rep.violations),
                   ["the foreign encoder (harness/src/foreign.rs) is written from docs/binary.md and every file it emits is first decoded by BinaryWire.tla",
                    "two fixed logical forests; value variety is C01's job", "INST chunks precede PROP chunks, as the document's file structure lists them"])
    return rc

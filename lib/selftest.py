"""./check --selftest: the bindings are demonstrated, not assumed.  Recorded traces of the real code are
corrupted (one field changed / one event removed / one payload byte flipped) and the trace
specifications must reject exactly those lines; then every seeded change under seeded/ is applied to
/repo in turn and the checks named in its meta.json must exit 1."""
import json
import os
import random
import subprocess

from common import OUT, VERIF, ToolError, build_harness, log, rbxv, validate_trace
from bin_checks import export_db, validate_cases
from dom_checks import write_cfg


def run(with_seeded=True):
    build_harness()
    rng = random.Random(7)
    ok = True
    # --- WeakDomTrace ---------------------------------------------------------------------
    trace = os.path.join(OUT, "self_dom.ndjson")
    rbxv(["dom-drive", "--seed", 11, "--episodes", 12, "--steps", 30], stdout_path=trace)
    cfg = os.path.join(OUT, "WeakDomTrace.cfg")
    write_cfg(cfg, "TraceSpec", dict(MaxRef=20, NumDoms=2, NumSlots=1), invariants="WellFormed UidDistinct UidSetExact UidSeen")
    base = validate_trace("WeakDomTrace", cfg, trace, shards=1)
    assert not base["mismatches"], "unchanged trace rejected"
    lines = open(trace).readlines()
    idx = [i for i, l in enumerate(lines) if '"op":"transfer"' in l or '"op":"insert"' in l]
    # (a) one field corrupted
    i = idx[len(idx) // 2]
    e = json.loads(lines[i])
    k = next(j for j, ks in enumerate(e["post"]["kids"]) if len(ks) >= 1)
    e["post"]["kids"][k] = list(reversed(e["post"]["kids"][k])) + [e["post"]["kids"][k][0]]
    a = lines[:i] + [json.dumps(e) + "\n"] + lines[i + 1:]
    open(trace + ".a", "w").writelines(a)
    ra = validate_trace("WeakDomTrace", cfg, trace + ".a", shards=1)
    hit = any(m[1] == i + 1 for m in ra["mismatches"])
    log("[selftest] WeakDomTrace, corrupted field at line %d: %s" % (i + 1, "rejected" if hit else "NOT rejected"))
    ok &= hit
    # (b) one event removed
    j = idx[len(idx) // 3]
    b = lines[:j] + lines[j + 1:]
    open(trace + ".b", "w").writelines(b)
    rb = validate_trace("WeakDomTrace", cfg, trace + ".b", shards=1)
    hit = len(rb["mismatches"]) >= 1
    log("[selftest] WeakDomTrace, event removed at line %d: %s" % (j + 1, "rejected" if hit else "NOT rejected"))
    ok &= hit
    # --- BinaryFormatTrace: flip one payload byte of a PROP chunk -------------------------
    db = export_db()
    btrace = os.path.join(OUT, "self_bin.ndjson")
    rbxv(["bin-cases", "--seed", 5, "--count", 8, "--mode", "known"], stdout_path=btrace)
    evs = [json.loads(l) for l in open(btrace)]
    target = None
    for n, e in enumerate(evs):
        f = e["modes"]["none"].get("file", {})
        for c in f.get("chunks", []):
            if c["name"] == "PROP" and len(c["payload"]) > 20 and bytes(c["payload"][8:12]) != b"Name":
                c["payload"][-1] ^= 0x40
                target = n
                break
        if target is not None:
            break
    with open(btrace + ".c", "w") as fo:
        for e in evs:
            fo.write(json.dumps(e) + "\n")
    n, fails = validate_cases("BinaryFormatTrace", btrace + ".c", {"DBJSON": db, "DIALECT": "code"}, shards=1)
    hit = any(c["line"] == target + 1 and (c["clause"].startswith("meaning") or c["clause"].startswith("structure") or c["clause"] == "same-payload") for c in fails)
    log("[selftest] BinaryFormatTrace, one payload byte flipped in case %s: %s" % (target, "rejected" if hit else "NOT rejected"))
    ok &= hit
    # --- seeded changes -------------------------------------------------------------------
    # every change under seeded/ is tried in its own scratch box (tools/try_seed_box.py: a worktree of /repo with
    # the patch applied and a copy of /verif pointed at it), four boxes at a time; /repo itself is not touched
    if with_seeded:
        import concurrent.futures as cf
        sdir = os.path.join(VERIF, "seeded")
        jobs = []
        for name in sorted(os.listdir(sdir)) if os.path.isdir(sdir) else []:
            meta_p = os.path.join(sdir, name, "meta.json")
            if not os.path.exists(meta_p):
                continue
            checks = json.load(open(meta_p)).get("caught_by", [])
            if not checks:
                log("[selftest] seeded/%s: no check is claimed to catch it (recorded miss)" % name)
                continue
            jobs.append((name, checks))

        def one(job):
            name, checks = job
            p = subprocess.run(["python3", os.path.join(VERIF, "tools", "try_seed_box.py"), os.path.join(sdir, name, "patch.diff")] + checks,
                               stdout=subprocess.PIPE, stderr=subprocess.STDOUT, text=True)
            try:
                res = json.loads(p.stdout.strip().splitlines()[-1])
            except Exception:
                res = {"error": p.stdout[-500:]}
            return name, checks, res

        with cf.ThreadPoolExecutor(max_workers=4) as ex:
            for name, checks, res in ex.map(one, jobs):
                caught = all(res.get(c, {}).get("rc") == 1 for c in checks)
                log("[selftest] seeded/%s: %s" % (name, "caught by " + ",".join(checks) if caught else "NOT caught: %s" % res))
                ok &= caught
    return 0 if ok else 1

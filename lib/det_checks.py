"""C07: determinism across construction histories / processes, and re-save fixed point."""
import concurrent.futures as cf
import json
import os
import time

from common import (OUT, Report, ToolError, build_harness, log, rbxv, tlc, tlc_violation, write_evidence)
from bin_checks import export_db, validate_cases, cleanup, find_event, _cfg
from col_checks import col_cfg


def run(pid, tier, seed, replay=None):
    t0 = time.time()
    quick = tier == "quick"
    rep = Report(pid)
    build_harness()
    db = export_db()
    # A: the writer's column logic is order-free (MCBinaryColumns: OrderFree) for every population / iteration order
    states = 0
    for cls, spellings, n in [("Part", ["Color", "Color3uint8", "BrickColor", "Size"], 2),
                              ("TextLabel", ["Font", "FontFace", "Text"], 2 if quick else 3)]:
        r = tlc("MCBinaryColumns", col_cfg("det_col", cls, spellings, n, invs="OrderFree"), workers=8, env={"DBJSON": db}, timeout=1800)
        v = tlc_violation(r)
        if v:
            rep.violation("spec|OrderFree|%s" % cls, {"tlc": r["out"][-4000:]}, "TLC: " + v)
        states += r.get("distinct", 0)
    r = tlc("MCBinaryColumns", col_cfg("det_old", "Part", ["Color3uint8", "BrickColor"], 1, alias="any", invs="OrderFree"),
            workers=2, env={"DBJSON": db}, timeout=600)
    if "Invariant OrderFree is violated" not in r["out"]:
        raise ToolError("sanity: hash-order alias choice no longer violates OrderFree")

    # B/C: the same logical forests constructed three ways in separate processes (fresh hash seeds, fresh Refs)
    count = 250 if quick else 6000
    variants = [0, 1, 2, 3, 4, 5, 6, 7] if not quick else [0, 1, 2, 3]
    paths = []

    def one(v):
        p = os.path.join(OUT, "C07_det_v%d.ndjson" % v)
        rbxv(["det-cases", "--seed", seed, "--count", count, "--variant", v], stdout_path=p, timeout=7200)
        return p
    with cf.ThreadPoolExecutor(max_workers=len(variants)) as ex:
        paths = list(ex.map(one, variants))
    events = []
    for p in paths:
        events += [json.loads(l) for l in open(p)]
    events.sort(key=lambda e: (e["case"], e["variant"]))
    trace = os.path.join(OUT, "C07_trace.ndjson")
    # shards must keep the events of one case together: write one file per shard by case modulo
    shards = 12
    n_total = 0
    fails = []
    pids = set(e["pid"] for e in events)
    for s in range(shards):
        part = [e for e in events if e["case"] % shards == s]
        if not part:
            continue
        pth = "%s.%d" % (trace, s)
        with open(pth, "w") as f:
            for e in part:
                f.write(json.dumps(e) + "\n")
    def val(s):
        pth = "%s.%d" % (trace, s)
        if not os.path.exists(pth):
            return 0, []
        return validate_cases("DeterminismTrace", pth, {}, shards=1)
    with cf.ThreadPoolExecutor(max_workers=shards) as ex:
        for n, fl in ex.map(val, range(shards)):
            n_total += n
            fails += fl
    for c in fails:
        if c["clause"] == "logical-content-differs":
            # the constructions are sequences of insert / transfer / transfer_within / destroy calls that must all
            # build the forest of the case; if the DOMs differ before any serializer ran, a DOM operation changed
            # content (e.g. regenerated a UniqueId that did not collide) - the output is then not a function of
            # the logical tree either
            rep.violation("construction-changes-content", lambda c=c: {"case": c, "event": find_event(c["part"], c["ep"])},
                          "%s: two constructions of one logical forest gave different DOM content" % c["ep"])
            continue
        what = (c.get("issues") or [[0, "", "", ""]])[0][2]
        rep.violation("%s|%s" % (c["clause"], what), lambda c=c: {"case": c, "event": find_event(c["part"], c["ep"])},
                      "%s: %s (%s)" % (c["ep"], c["clause"], what))
    distinct = len({json.dumps(e["forest"], sort_keys=True) for e in events})
    samples = [{"case": events[0]["case"], "variants": variants, "outputs": events[0]["out"]}]
    for p in paths:
        cleanup(p, rep)
    for s in range(shards):
        cleanup("%s.%d" % (trace, s), rep)
    log("[C07] %d logical forests x %d constructions in %d processes; %d events judged" % (count, len(variants), len(pids), n_total))
    rc = rep.finish()
    cov = {"states": states, "transitions": states, "traces_validated_against_impl": n_total, "samples": samples,
           "evaluations": n_total, "distinct_nontrivial": distinct, "processes": len(pids),
           "rule": "logical forests are a function of (seed, case); each is built by direct inserts, by scratch-holder inserts + "
                   "transfer_within + destroys, and in another DOM + transfer, with shuffled property insertion order, in separate "
                   "processes; distinct logical forests counted"}
    write_evidence(pid, tier, seed, "model_checking", cov, time.time() - t0, len(rep.violations),
                   ["byte equality is compared through BLAKE3 digests", "constructions are those of harness/src/det.rs"])
    return rc

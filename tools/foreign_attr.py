#!/usr/bin/env python3
"""An independent encoder of attribute blobs written from docs/attributes.md (C14, foreign direction).
Output: ndjson {"ep", "blob": [bytes], "described": [[name bytes, {"t","v"}], ...]} (pval shape)."""
import argparse, json, random, struct

def f32(x): return list(struct.pack('>f', x))
def f32le(x): return struct.pack('<f', x)
FL = [0.0, -0.0, 1.0, -1.5, 0.15625, 1e-40, 3.4028235e38, float('inf'), float('-inf'), 123.456, 0.5]
BASIC = [2, 3, 5, 6, 7, 9, 10, 12, 13, 14, 16, 17, 20, 21, 23, 24, 25, 27, 28, 30, 31, 32, 34, 35]

def lstr(b): return struct.pack('<I', len(b)) + b

def value(rng, kind, rot_tables):
    if kind == 'String':
        s = bytes(rng.randrange(256) for _ in range(rng.choice([0, 1, 7, 300])))
        return 0x02, lstr(s), {"t": "BinaryString", "v": list(s)}
    if kind == 'Bool':
        b = rng.random() < 0.5
        return 0x03, bytes([int(b)]), {"t": "Bool", "v": int(b)}
    if kind == 'Int32':
        n = rng.choice([0, 1, -1, 2**31 - 1, -2**31, 1337])
        return 0x04, struct.pack('<i', n), {"t": "Int32", "v": list(struct.pack('>i', n))}
    if kind == 'Float32':
        x = rng.choice(FL); return 0x05, f32le(x), {"t": "Float32", "v": f32(x)}
    if kind == 'Float64':
        x = rng.choice(FL + [1e300, 5e-324]); return 0x06, struct.pack('<d', x), {"t": "Float64", "v": list(struct.pack('>d', x))}
    if kind == 'UDim':
        s, o = rng.choice(FL), rng.choice([0, 456, -7])
        return 0x09, f32le(s) + struct.pack('<i', o), {"t": "UDim", "v": [f32(s), list(struct.pack('>i', o))]}
    if kind == 'UDim2':
        xs, xo, ys, yo = rng.choice(FL), rng.choice([0, 2, -9]), rng.choice(FL), rng.choice([4, -2**31])
        return 0x0A, f32le(xs) + struct.pack('<i', xo) + f32le(ys) + struct.pack('<i', yo), \
            {"t": "UDim2", "v": [f32(xs), list(struct.pack('>i', xo)), f32(ys), list(struct.pack('>i', yo))]}
    if kind == 'BrickColor':
        n = rng.choice([1, 5, 21, 194, 199, 1001, 1004, 1032, 37, 26])
        return 0x0E, struct.pack('<I', n), {"t": "BrickColor", "v": n}
    if kind in ('Color3', 'Vector3'):
        v = [rng.choice(FL) for _ in range(3)]
        return (0x0F if kind == 'Color3' else 0x11), b''.join(f32le(x) for x in v), {"t": kind, "v": [f32(x) for x in v]}
    if kind == 'Vector2':
        v = [rng.choice(FL) for _ in range(2)]
        return 0x10, b''.join(f32le(x) for x in v), {"t": kind, "v": [f32(x) for x in v]}
    if kind == 'CFrame':
        pos = [rng.choice(FL) for _ in range(3)]
        if rng.random() < 0.6:
            rid = rng.choice(BASIC)
            m = rot_tables[rid]
            return 0x14, b''.join(f32le(x) for x in pos) + bytes([rid]), {"t": "CFrame", "v": [f32(x) for x in pos] + [f32(float(x)) for x in m]}
        m = [rng.choice([0.70710677, -0.5, 2.0, 0.25, 0.0, 1.0, 3.5]) for _ in range(9)]
        m[0] = 0.70710677   # never a basic rotation
        return 0x14, b''.join(f32le(x) for x in pos) + bytes([0]) + b''.join(f32le(x) for x in m), \
            {"t": "CFrame", "v": [f32(x) for x in pos] + [f32(x) for x in m]}
    if kind == 'EnumItem':
        nm = rng.choice([b"Material", b"", b"KeyCode"]); n = rng.choice([0, 256, 2**32 - 1, 1568])
        return 0x15, lstr(nm) + struct.pack('<I', n), {"t": "EnumItem", "v": [list(nm), list(struct.pack('>I', n))]}
    if kind == 'NumberSequence':
        k = rng.choice([0, 1, 2, 3, 20])
        pts = [[rng.choice(FL) for _ in range(3)] for _ in range(k)]      # time, value, envelope
        body = struct.pack('<I', k) + b''.join(f32le(p[2]) + f32le(p[0]) + f32le(p[1]) for p in pts)
        return 0x17, body, {"t": "NumberSequence", "v": [[f32(x) for x in p] for p in pts]}
    if kind == 'ColorSequence':
        k = rng.choice([0, 2, 3])
        pts = [[rng.choice(FL) for _ in range(4)] for _ in range(k)]      # time, r, g, b
        body = struct.pack('<I', k) + b''.join(f32le(0.0) + b''.join(f32le(x) for x in p) for p in pts)
        return 0x19, body, {"t": "ColorSequence", "v": [[f32(x) for x in p] for p in pts]}
    if kind == 'NumberRange':
        v = [rng.choice(FL) for _ in range(2)]
        return 0x1B, b''.join(f32le(x) for x in v), {"t": kind, "v": [f32(x) for x in v]}
    if kind == 'Rect':
        v = [rng.choice(FL) for _ in range(4)]
        return 0x1C, b''.join(f32le(x) for x in v), {"t": kind, "v": [f32(x) for x in v]}
    if kind == 'Font':
        w, st = rng.choice([100, 400, 700, 900]), rng.choice([0, 1])
        fam = rng.choice([b"rbxasset://fonts/families/SourceSansPro.json", b""])
        cf = rng.choice([b"", b"rbxasset://fonts/SourceSansPro-Regular.ttf"])
        return 0x21, struct.pack('<H', w) + bytes([st]) + lstr(fam) + lstr(cf), \
            {"t": "Font", "v": [list(fam), w, st, 1 if cf else 0, list(cf)]}
    raise ValueError(kind)

KINDS = ['String', 'Bool', 'Int32', 'Float32', 'Float64', 'UDim', 'UDim2', 'BrickColor', 'Color3', 'Vector2', 'Vector3',
         'CFrame', 'EnumItem', 'NumberSequence', 'ColorSequence', 'NumberRange', 'Rect', 'Font']

def rotation_tables():
    """id -> 9 entries, from the angle table of docs/attributes.md (Y -> X -> Z)"""
    import re
    doc = open('/repo/docs/attributes.md').read()
    pairs = re.findall(r'`([0-9a-f]{2})`\s*\|\s*\((-?\d+), (-?\d+), (-?\d+)\)', doc)
    def cs(d): return {0: (1, 0), 90: (0, 1), 180: (-1, 0), 270: (0, -1)}[d % 360]
    def mul(a, b): return [[sum(a[i][k] * b[k][j] for k in range(3)) for j in range(3)] for i in range(3)]
    out = {}
    for hid, x, y, z in pairs:
        c, s = cs(int(x)); rx = [[1, 0, 0], [0, c, -s], [0, s, c]]
        c, s = cs(int(y)); ry = [[c, 0, s], [0, 1, 0], [-s, 0, c]]
        c, s = cs(int(z)); rz = [[c, -s, 0], [s, c, 0], [0, 0, 1]]
        m = mul(mul(ry, rx), rz)
        out[int(hid, 16)] = [m[i][j] for i in range(3) for j in range(3)]
    assert len(out) == 24
    return out

def main():
    ap = argparse.ArgumentParser(); ap.add_argument('--seed', type=int, default=1); ap.add_argument('--count', type=int, default=100)
    a = ap.parse_args(); rng = random.Random(a.seed); rt = rotation_tables()
    for i in range(a.count):
        n = rng.choice([0, 1, 2, 3, 6, 18])
        names, blob, desc = set(), b'', []
        entries = []
        for j in range(n):
            kind = KINDS[(i + j) % len(KINDS)] if n == 18 else rng.choice(KINDS)
            nm = rng.choice(["", "Attr%d" % j, "é%d" % j, "with space %d" % j]).encode()
            if nm in names: nm += b"_%d" % j
            names.add(nm)
            tid, body, pv = value(rng, kind, rt)
            entries.append((nm, tid, body, pv))
        blob = struct.pack('<I', len(entries)) + b''.join(lstr(nm) + bytes([tid]) + body for nm, tid, body, pv in entries)
        if n == 0 and rng.random() < 0.5: blob = b''
        print(json.dumps({"ep": "fattr:%d:%d" % (a.seed, i), "blob": list(blob), "described": [[list(nm), pv] for nm, tid, body, pv in entries]}))

if __name__ == '__main__':
    main()

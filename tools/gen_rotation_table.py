#!/usr/bin/env python3
"""Reads the CFrame special-case table of docs/binary.md (id -> Euler angles in degrees, applied
Y -> X -> Z) and prints the TLA+ CASE arms of BasicRotation with exact 0/1/-1 matrix entries."""
import re, sys
from fractions import Fraction

doc = open('/repo/docs/binary.md').read()
sec = doc[doc.index('### CFrame'):doc.index('### Enum')]
pairs = re.findall(r'`([0-9a-f]{2})`\s*\|\s*\((-?\d+), (-?\d+), (-?\d+)\)', sec)
assert len(pairs) == 24, len(pairs)

def cs(deg):
    d = deg % 360
    return {0: (1, 0), 90: (0, 1), 180: (-1, 0), 270: (0, -1)}[d]

def mul(a, b):
    return [[sum(a[i][k] * b[k][j] for k in range(3)) for j in range(3)] for i in range(3)]

def rx(d):
    c, s = cs(d); return [[1, 0, 0], [0, c, -s], [0, s, c]]
def ry(d):
    c, s = cs(d); return [[c, 0, s], [0, 1, 0], [-s, 0, c]]
def rz(d):
    c, s = cs(d); return [[c, -s, 0], [s, c, 0], [0, 0, 1]]

name = {0: 'Z4', 1: 'P1', -1: 'M1'}
rows = []
for hid, x, y, z in sorted(pairs, key=lambda p: int(p[0], 16)):
    m = mul(mul(ry(int(y)), rx(int(x))), rz(int(z)))
    flat = [m[i][j] for i in range(3) for j in range(3)]
    rows.append((int(hid, 16), flat))
first = True
for i, flat in rows:
    print('    %s id = %-2d -> <<%s>>' % ('CASE' if first else '  []', i, ', '.join(name[v] for v in flat)))
    first = False
print('      [] OTHER   -> <<>>')
print('BasicRotationIds == {%s}' % ', '.join(str(i) for i, _ in rows))

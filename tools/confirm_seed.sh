#!/bin/bash
# usage: confirm_seed.sh <ID> <crate>   -- re-confirms an agent's seeded change in its scratch worktree
set -u
ID=$1; CRATE=$2; WT=/tmp/wt-$ID
cd $WT || exit 2
echo "== demo WITH the change (expected: fails)"
cargo test -p $CRATE --test seeded_demo --offline 2>&1 | grep -E "^test result|^test .* (ok|FAILED)" | head -8
git apply -R seeded_out/patch.diff || exit 2
echo "== demo WITHOUT the change (expected: passes)"
cargo test -p $CRATE --test seeded_demo --offline 2>&1 | grep -E "^test result|^test .* (ok|FAILED)" | head -8
git apply seeded_out/patch.diff || exit 2
echo "== existing suite with the change vs the agent's baseline listing"
cargo test --workspace --no-fail-fast --offline 2>&1 | grep -E "^test .* (ok|FAILED)$" | sort > /tmp/confirm-$ID.txt
diff /tmp/base-$ID.txt /tmp/confirm-$ID.txt | grep -v seeded_demo | grep -v "^[0-9]" | head -5
echo "== ok->FAILED regressions: $(comm -23 <(grep ' ok$' /tmp/base-$ID.txt) <(grep ' ok$' /tmp/confirm-$ID.txt) | wc -l)"

#!/bin/bash
# usage: confirm_seed.sh <worktree> <crate> <baseline-listing> -- re-confirms an agent's seeded change in its scratch worktree
set -u
WT=$1; CRATE=$2; BASE=$3
cd $WT || exit 2
echo "== demo WITH the change (expected: fails)"
cargo test -p $CRATE --test seeded_demo --offline 2>&1 | grep -E "^test result|^test .* (ok|FAILED)" | head -8
git apply -R seeded_out/patch.diff || exit 2
echo "== demo WITHOUT the change (expected: passes)"
cargo test -p $CRATE --test seeded_demo --offline 2>&1 | grep -E "^test result|^test .* (ok|FAILED)" | head -8
git apply seeded_out/patch.diff || exit 2
echo "== existing suite with the change vs the agent's baseline listing"
cargo test --workspace --no-fail-fast --offline 2>&1 | grep -E "^test .* (ok|FAILED)$" | sort > $BASE.confirm
echo "== ok->FAILED regressions: $(comm -23 <(grep ' ok$' $BASE) <(grep ' ok$' $BASE.confirm) | wc -l)"

#!/usr/bin/env python3
"""PDoc: XML text -> token tree, by Python's expat (independent of xml-rs and of rbx_xml).

For every element: tag, attributes, children, and the concatenated character data directly inside it
as type-agnostic lexical *views*: raw bytes; if the text is a decimal number in the sense of
docs/xml.md (XSD precision decimal, INF/+INF/-INF/NAN) its nearest f32 and f64 bit patterns computed
with exact rational arithmetic (ties to even) and, if it is an integer, its 64-bit two's complement;
if it is base64 / hexadecimal its bytes; if it is a whitespace-separated list of numbers the list of
f32 patterns.  Which view a property type uses is decided by XmlFormat.tla, not here.

usage: xmltok.py < events.ndjson > events_with_doc.ndjson   (replaces "text" by "doc")
"""
import base64
import hashlib
import json
import re
import struct
import sys
import xml.parsers.expat
from fractions import Fraction

NUM = re.compile(r'^[+-]?(\d+(\.\d*)?|\.\d+)([eE][+-]?\d+)?$')
INT = re.compile(r'^[+-]?\d+$')
HEX = re.compile(r'^([0-9a-fA-F]{2})+$')
B64 = re.compile(r'^[A-Za-z0-9+/]*={0,2}$')


def round_to_float(fr, mant_bits, exp_bits):
    """nearest IEEE value (ties to even) of an exact Fraction; returns the bit pattern as int"""
    bias = (1 << (exp_bits - 1)) - 1
    sign = 0
    if fr < 0:
        sign = 1
        fr = -fr
    total = 1 + exp_bits + mant_bits
    if fr == 0:
        return sign << (total - 1)
    # find e with 2^e <= fr < 2^(e+1)
    n, d = fr.numerator, fr.denominator
    e = n.bit_length() - d.bit_length()
    if Fraction(2) ** e > fr:
        e -= 1
    elif Fraction(2) ** (e + 1) <= fr:
        e += 1
    emin = 1 - bias
    if e < emin:
        e = emin
    # significand scaled: m = fr / 2^(e - mant_bits), to be rounded to an integer
    scaled = fr / (Fraction(2) ** (e - mant_bits))
    m = scaled.numerator // scaled.denominator
    rem = scaled - m
    if rem > Fraction(1, 2) or (rem == Fraction(1, 2) and m % 2 == 1):
        m += 1
    if m >= (1 << (mant_bits + 1)):
        m >>= 1
        e += 1
    if e > bias:
        return (sign << (total - 1)) | (((1 << exp_bits) - 1) << mant_bits)  # overflow -> infinity
    if m < (1 << mant_bits):
        biased = 0  # subnormal
    else:
        biased = e + bias
        m -= (1 << mant_bits)
    return (sign << (total - 1)) | (biased << mant_bits) | m


def num_views(s):
    """(f32 bytes, f64 bytes) of a number text per docs/xml.md, or (None, None)"""
    special = {'INF': (0x7f800000, 0x7ff0000000000000), '+INF': (0x7f800000, 0x7ff0000000000000),
               '-INF': (0xff800000, 0xfff0000000000000), 'NAN': (0x7fc00000, 0x7ff8000000000000)}
    if s in special:
        a, b = special[s]
        return list(struct.pack('>I', a)), list(struct.pack('>Q', b))
    if not NUM.match(s) or len(s) > 400:
        return None, None
    m = re.match(r'^([+-]?)(\d*)\.?(\d*)(?:[eE]([+-]?\d+))?$', s)
    sign, ip, fp, ex = m.group(1), m.group(2), m.group(3), m.group(4)
    digits = (ip + fp) or '0'
    exp = int(ex or 0) - len(fp)
    if abs(exp) > 6000:
        return None, None
    fr = Fraction(int(digits)) * (Fraction(10) ** exp)
    neg = sign == '-'
    b32 = round_to_float(fr, 23, 8) | ((1 << 31) if neg else 0)
    b64 = round_to_float(fr, 52, 11) | ((1 << 63) if neg else 0)
    return list(struct.pack('>I', b32)), list(struct.pack('>Q', b64))


def text_views(s):
    raw = s.encode('utf-8')
    v = {'raw': list(raw), 'str': s if len(s) <= 64 else '', 'f32': [], 'f64': [], 'i64': [], 'b64ok': 0, 'b64': [],
         'hexok': 0, 'hex': [], 'f32s_ok': 0, 'f32s': []}
    t = s.strip()
    f32, f64 = num_views(t)
    if f32 is not None:
        v['f32'], v['f64'] = f32, f64
    if INT.match(t) and len(t) < 25:
        n = int(t)
        if -(1 << 63) <= n < (1 << 64):
            v['i64'] = list(struct.pack('>Q', n & ((1 << 64) - 1)))
            v['i64_neg'] = 1 if n < 0 else 0
            v['i64_big'] = 1 if n >= (1 << 63) else 0
    compact = re.sub(r'\s+', '', s)
    if B64.match(compact) and len(compact) % 4 == 0:
        try:
            v['b64'] = list(base64.b64decode(compact, validate=True))
            v['b64ok'] = 1
        except Exception:
            pass
    if HEX.match(t):
        v['hex'] = list(bytes.fromhex(t))
        v['hexok'] = 1
    toks = s.split()
    if 2 <= len(toks) <= 400:
        views = [num_views(x)[0] for x in toks]
        if all(x is not None for x in views):
            v['f32s'] = views
            v['f32s_ok'] = 1
    return v


def parse(text):
    root = {'tag': '#doc', 'attrs': [], 'kids': [], 'chunks': []}
    stack = [root]
    p = xml.parsers.expat.ParserCreate()
    p.buffer_text = True

    def start(name, attrs):
        node = {'tag': name, 'attrs': [[k, v, list(v.encode('utf-8'))] for k, v in attrs.items()], 'kids': [], 'chunks': []}
        stack[-1]['kids'].append(node)
        stack.append(node)

    def end(name):
        stack.pop()

    def chars(data):
        stack[-1]['chunks'].append(data)

    p.StartElementHandler = start
    p.EndElementHandler = end
    p.CharacterDataHandler = chars
    p.ordered_attributes = False
    p.Parse(text, True)

    def finish(node):
        s = ''.join(node.pop('chunks'))
        node['text'] = text_views(s)
        # whitespace between child elements is layout, not content
        node['ws_only'] = 1 if s.strip() == '' else 0
        for k in node['kids']:
            finish(k)
    finish(root)
    return root


LONG = 8192


def shrink(x):
    """Every byte string longer than LONG (a list of ints 0..255: values in the forests, raw / base64 views of the
    document's text) becomes SHA-256 + length + a marker, on all sides alike: equal before iff equal after (short
    of a SHA-256 collision), and TLC compares 44 numbers instead of millions."""
    if isinstance(x, list):
        if len(x) > LONG and all(isinstance(b, int) and 0 <= b <= 255 for b in x):
            return list(hashlib.sha256(bytes(x)).digest()) + list(len(x).to_bytes(8, 'big')) + [1, 2, 3, 4]
        return [shrink(y) for y in x]
    if isinstance(x, dict):
        return {k: shrink(v) for k, v in x.items()}
    return x


def main():
    for line in sys.stdin:
        if not line.strip():
            continue
        ev = json.loads(line)
        big = len(line) > 200000
        if 'text' in ev:
            try:
                ev['doc'] = parse(ev.pop('text'))
                ev['wellformed'] = 1
            except xml.parsers.expat.ExpatError as e:
                ev['wellformed'] = 0
                ev['xml_error'] = str(e)
                ev.pop('text', None)
        if big:
            ev = shrink(ev)
        sys.stdout.write(json.dumps(ev) + '\n')


if __name__ == '__main__':
    # self-test of the exact rounding on a few classic cases
    assert num_views('0.15625')[0] == [62, 32, 0, 0]
    assert num_views('1')[1] == [63, 240, 0, 0, 0, 0, 0, 0]
    assert num_views('-0')[0] == [128, 0, 0, 0]
    assert num_views('1e-45')[0] == [0, 0, 0, 1]
    assert num_views('3.4028235e38')[0] == [127, 127, 255, 255]
    assert num_views('1e39')[0] == [127, 128, 0, 0]
    assert num_views('16777217')[0] == [75, 128, 0, 0]      # tie -> even
    assert num_views('0.1')[1] == list(struct.pack('>d', 0.1))
    main()

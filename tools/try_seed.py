#!/usr/bin/env python3
"""Apply a seeded change to /repo, run the named checks, undo the change. Prints one line per check.
usage: try_seed.py <patch.diff> <check-id> [<check-id> ...] [--tier quick|thorough]"""
import json, os, subprocess, sys, time
args = sys.argv[1:]
tier = "quick"
if "--tier" in args:
    i = args.index("--tier"); tier = args[i + 1]; del args[i:i + 2]
patch, ids = args[0], args[1:]
assert subprocess.run(["git", "-C", "/repo", "status", "--porcelain", "--untracked-files=no"], stdout=subprocess.PIPE, text=True).stdout.strip() == "", "/repo is dirty"
subprocess.run(["git", "-C", "/repo", "apply", os.path.abspath(patch)], check=True)
results = {}
try:
    for cid in ids:
        t = time.time()
        p = subprocess.run(["./check", cid, "--tier", tier], cwd="/verif", stdout=subprocess.PIPE, stderr=subprocess.STDOUT, text=True)
        viol = [l for l in p.stdout.splitlines() if l.startswith("VIOLATION") or l.startswith("  signature") or l.startswith("TOOL-ERROR")]
        results[cid] = {"rc": p.returncode, "wall_s": round(time.time() - t), "lines": viol[:6]}
        print(cid, "rc=%d" % p.returncode, "%ds" % (time.time() - t), "; ".join(viol[:3])[:400], flush=True)
finally:
    subprocess.run(["git", "-C", "/repo", "checkout", "--", "."], check=True)
print(json.dumps(results))

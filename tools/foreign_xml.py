#!/usr/bin/env python3
"""An independent writer of Roblox XML documents, from docs/xml.md only (C05, reader direction).

For seeded logical forests it emits documents that vary everything the document leaves open:
UUID-style / arbitrary referents, property order, indentation, Meta / External elements, forward
references, ProtectedString, url vs uri, line-wrapped base64, alternative number spellings
(1e3, 1.0E3, 1., -0, +INF), Properties after child Items, arbitrary md5 keys.

Each output line: {"ep", "logical": PForest (same shape as harness/src/pval.rs), "text": document}.
The logical forest uses the names that appear in the document; XmlFormat.tla first checks that the
document means the forest (so this generator is held to the spec), then that rbx_xml read that forest.
"""
import argparse
import base64


def wrap64(rng, b):
    """line-wrapped base64 (RFC 2045: line breaks and other characters outside the alphabet are
    ignored by decoders), with the continuation lines indented the way pretty-printers do"""
    if rng.random() < 0.45:
        return b
    width = rng.choice([4, 40, 64, 76])
    sep = rng.choice(["\n", "\r\n", "\n\t", "\n    ", "\r\n\t\t", " "])
    lines = [b[i:i + width] for i in range(0, len(b), width)] or [""]
    out = sep.join(lines)
    if rng.random() < 0.4:
        out = sep + out + rng.choice(["\n", "\n\t", sep])
    return out
import json
import random
import struct
from fractions import Fraction
from xml.sax.saxutils import escape


def f32bits(x):
    return list(struct.pack('>f', x))


def f64bits(x):
    return list(struct.pack('>d', x))


def i64bits(n):
    return list(struct.pack('>q', n))


def i32bits(n):
    return list(struct.pack('>i', n))


# floats whose decimal spellings are exact, with alternative spellings per docs/xml.md
FLOATS = [
    (0.0, ["0", "0.0", "0e0", "0.", "00.00"]), (-0.0, ["-0", "-0.0"]), (1.0, ["1", "1.0", "1e0", "1.", "1.0E0"]),
    (1000.0, ["1000", "1e3", "1.0E3", "1000.0", "10e2"]), (0.15625, ["0.15625", "15625e-5", ".15625"]),
    (-123.5, ["-123.5", "-1.235e2", "-12350e-2"]), (float('inf'), ["INF", "+INF"]), (float('-inf'), ["-INF"]),
    (16777216.0, ["16777216", "1.6777216e7"]), (0.5, ["0.5", ".5", "5e-1", "0.50"]),
]


def fl(rng):
    v, sp = rng.choice(FLOATS)
    return v, rng.choice(sp)


class Doc:
    def __init__(self, rng):
        self.rng = rng
        self.out = []
        self.indent_unit = rng.choice(["", "  ", "\t", "    "])
        self.nl = rng.choice(["\n", "\n", "\r\n", ""])

    def line(self, depth, s):
        self.out.append(self.indent_unit * depth + s + self.nl)


def text_esc(s):
    return escape(s)


def make_value(rng, ty, n_inst):
    """returns (pval, element-writer(depth, name) -> list of lines)"""
    def simple(tag, text):
        return lambda name: ['<%s name="%s">%s</%s>' % (tag, name, text, tag)]
    if ty == 'String':
        s = rng.choice(["hello", "", "a <b> & c", "tabs\tand\nnewlines", "  padded  ", "]]>", "unicode é中"])
        if rng.random() < 0.4 or s != s.strip() or s == "":
            body = "<![CDATA[%s]]>" % s.replace("]]>", "]]]]><![CDATA[>")
        else:
            body = text_esc(s)
        return {"t": "String", "v": list(s.encode())}, simple(rng.choice(["string", "ProtectedString"]), body)
    if ty == 'Bool':
        b = rng.random() < 0.5
        return {"t": "Bool", "v": int(b)}, simple("bool", "true" if b else "false")
    if ty == 'Int64':
        n = rng.choice([0, 1, -1, 5, -559038737, 2**63 - 1, -2**63, 281474976710656])
        return {"t": "Int64", "v": i64bits(n)}, simple("int64", str(n))
    if ty == 'Int32':
        n = rng.choice([0, 1337, -2147483648, 2147483647, -7])
        return {"t": "Int32", "v": i32bits(n)}, simple("int", str(n))
    if ty == 'Float32':
        v, sp = fl(rng)
        return {"t": "Float32", "v": f32bits(v)}, simple("float", sp)
    if ty == 'Float64':
        v, sp = fl(rng)
        return {"t": "Float64", "v": f64bits(v)}, simple("double", sp)
    if ty == 'Enum':
        n = rng.choice([0, 1, 3, 256, 1568])
        return {"t": "Enum", "v": list(struct.pack('>I', n))}, simple("token", str(n))
    if ty == 'BinaryString':
        data = bytes(rng.randrange(256) for _ in range(rng.choice([0, 1, 5, 80, 200])))
        b = base64.b64encode(data).decode()
        b = wrap64(rng, b)
        return {"t": "BinaryString", "v": list(data)}, simple("BinaryString", b)
    if ty == 'Vector3':
        comps = [fl(rng) for _ in range(3)]
        return ({"t": "Vector3", "v": [f32bits(c[0]) for c in comps]},
                lambda name: ['<Vector3 name="%s">' % name] + ['<%s>%s</%s>' % (t, c[1], t) for t, c in zip("XYZ", comps)] + ['</Vector3>'])
    if ty == 'Color3':
        comps = [fl(rng) for _ in range(3)]
        return ({"t": "Color3", "v": [f32bits(c[0]) for c in comps]},
                lambda name: ['<Color3 name="%s">' % name] + ['<%s>%s</%s>' % (t, c[1], t) for t, c in zip("RGB", comps)] + ['</Color3>'])
    if ty == 'Color3uint8':
        r, g, b = rng.randrange(256), rng.randrange(256), rng.randrange(256)
        n = (0xFF << 24) | (r << 16) | (g << 8) | b
        return {"t": "Color3uint8", "v": [r, g, b]}, simple("Color3uint8", str(n))
    if ty == 'CFrame':
        comps = [fl(rng) for _ in range(12)]
        tags = ["X", "Y", "Z", "R00", "R01", "R02", "R10", "R11", "R12", "R20", "R21", "R22"]
        return ({"t": "CFrame", "v": [f32bits(c[0]) for c in comps]},
                lambda name: ['<CoordinateFrame name="%s">' % name] + ['<%s>%s</%s>' % (t, c[1], t) for t, c in zip(tags, comps)] + ['</CoordinateFrame>'])
    if ty == 'OptionalCFrame':
        if rng.random() < 0.4:
            return {"t": "OptionalCFrame", "v": []}, lambda name: ['<OptionalCoordinateFrame name="%s"></OptionalCoordinateFrame>' % name]
        comps = [fl(rng) for _ in range(12)]
        tags = ["X", "Y", "Z", "R00", "R01", "R02", "R10", "R11", "R12", "R20", "R21", "R22"]
        return ({"t": "OptionalCFrame", "v": [f32bits(c[0]) for c in comps]},
                lambda name: ['<OptionalCoordinateFrame name="%s">' % name, '<CFrame>'] + ['<%s>%s</%s>' % (t, c[1], t) for t, c in zip(tags, comps)] + ['</CFrame>', '</OptionalCoordinateFrame>'])
    if ty == 'UDim2':
        xs, ys = fl(rng), fl(rng)
        xo, yo = rng.choice([0, 1337, -5]), rng.choice([0, 456, -2147483648])
        return ({"t": "UDim2", "v": [f32bits(xs[0]), i32bits(xo), f32bits(ys[0]), i32bits(yo)]},
                lambda name: ['<UDim2 name="%s">' % name, '<XS>%s</XS>' % xs[1], '<XO>%d</XO>' % xo, '<YS>%s</YS>' % ys[1], '<YO>%d</YO>' % yo, '</UDim2>'])
    if ty == 'ContentId':
        u = rng.choice(["", "rbxasset://textures/face.png", "http://x/y?a=1&b=2"])
        tag = rng.choice(["ContentId", "Content"])          # the pre-645 name of the element is still in the wild
        inner = "<null></null>" if u == "" else "<url>%s</url>" % text_esc(u)
        return {"t": "ContentId", "v": list(u.encode())}, simple(tag, inner)
    if ty == 'Content':
        u = rng.choice(["", "rbxassetid://77", "rbxasset://a b.png"])
        inner = "<null></null>" if u == "" else "<%s>%s</%s>" % (("uri",) * 1 + (text_esc(u), "uri"))
        return {"t": "Content", "v": [0] if u == "" else [1, list(u.encode())]}, simple("Content", inner)
    if ty == 'NumberSequence':
        k = rng.choice([2, 3])
        pts = [[fl(rng) for _ in range(3)] for _ in range(k)]
        text = " ".join(c[1] for p in pts for c in p) + " "
        return {"t": "NumberSequence", "v": [[f32bits(c[0]) for c in p] for p in pts]}, simple("NumberSequence", text)
    if ty == 'ColorSequence':
        k = rng.choice([2, 3])
        pts = [[fl(rng) for _ in range(4)] for _ in range(k)]
        text = " ".join(" ".join(c[1] for c in p) + " 0" for p in pts) + " "
        return {"t": "ColorSequence", "v": [[f32bits(c[0]) for c in p] for p in pts]}, simple("ColorSequence", text)
    if ty == 'NumberRange':
        a, b = fl(rng), fl(rng)
        return {"t": "NumberRange", "v": [f32bits(a[0]), f32bits(b[0])]}, simple("NumberRange", "%s %s " % (a[1], b[1]))
    if ty == 'PhysicalProperties':
        if rng.random() < 0.4:
            return {"t": "PhysicalProperties", "v": []}, lambda name: ['<PhysicalProperties name="%s">' % name, '<CustomPhysics>false</CustomPhysics>', '</PhysicalProperties>']
        comps = [fl(rng) for _ in range(5)]
        tags = ["Density", "Friction", "Elasticity", "FrictionWeight", "ElasticityWeight"]
        return ({"t": "PhysicalProperties", "v": [f32bits(c[0]) for c in comps]},
                lambda name: ['<PhysicalProperties name="%s">' % name, '<CustomPhysics>true</CustomPhysics>'] + ['<%s>%s</%s>' % (t, c[1], t) for t, c in zip(tags, comps)] + ['</PhysicalProperties>'])
    if ty == 'Rect':
        comps = [fl(rng) for _ in range(4)]
        return ({"t": "Rect", "v": [f32bits(c[0]) for c in comps]},
                lambda name: ['<Rect2D name="%s">' % name, '<min>', '<X>%s</X>' % comps[0][1], '<Y>%s</Y>' % comps[1][1], '</min>',
                              '<max>', '<X>%s</X>' % comps[2][1], '<Y>%s</Y>' % comps[3][1], '</max>', '</Rect2D>'])
    if ty == 'Ray':
        comps = [fl(rng) for _ in range(6)]
        return ({"t": "Ray", "v": [f32bits(c[0]) for c in comps]},
                lambda name: ['<Ray name="%s">' % name, '<origin>'] + ['<%s>%s</%s>' % (t, c[1], t) for t, c in zip("XYZ", comps[:3])] +
                             ['</origin>', '<direction>'] + ['<%s>%s</%s>' % (t, c[1], t) for t, c in zip("XYZ", comps[3:])] + ['</direction>', '</Ray>'])
    if ty == 'Faces':
        n = rng.randrange(64)
        return {"t": "Faces", "v": n}, lambda name: ['<Faces name="%s">' % name, '<faces>%d</faces>' % n, '</Faces>']
    if ty == 'Axes':
        n = rng.randrange(8)
        return {"t": "Axes", "v": n}, lambda name: ['<Axes name="%s">' % name, '<axes>%d</axes>' % n, '</Axes>']
    if ty == 'Font':
        fam = rng.choice(["rbxasset://fonts/families/Arial.json", "rbxasset://fonts/families/SourceSansPro.json"])
        w = rng.choice([100, 400, 700, 900])
        st = rng.choice(["Normal", "Italic"])
        cached = rng.choice([None, "rbxasset://fonts/arial.ttf"])
        lines = ['<Family><url>%s</url></Family>' % fam, '<Weight>%d</Weight>' % w, '<Style>%s</Style>' % st]
        if cached:
            lines.append('<CachedFaceId><url>%s</url></CachedFaceId>' % cached)
        return ({"t": "Font", "v": [list(fam.encode()), w, 1 if st == "Italic" else 0, 1 if cached else 0, list((cached or "").encode())]},
                lambda name: ['<Font name="%s">' % name] + lines + ['</Font>'])
    if ty == 'UniqueId':
        idx, tm, rnd = rng.randrange(2**32), rng.randrange(2**32), rng.randrange(2**63)
        hexs = "%016x%08x%08x" % (rnd, tm, idx)
        return ({"t": "UniqueId", "v": [list(struct.pack('>I', idx)), list(struct.pack('>I', tm)), list(struct.pack('>Q', rnd))]},
                simple("UniqueId", hexs))
    raise ValueError(ty)


CATALOG = {
    "Part": [("Anchored", "Bool"), ("size", "Vector3"), ("CFrame", "CFrame"), ("Color3uint8", "Color3uint8"),
             ("Transparency", "Float32"), ("Material", "Enum"), ("shape", "Enum"), ("CustomPhysicalProperties", "PhysicalProperties")],
    "Script": [("Source", "String")],
    "IntValue": [("Value", "Int64")], "NumberValue": [("Value", "Float64")], "StringValue": [("Value", "String")],
    "BoolValue": [("Value", "Bool")], "Vector3Value": [("Value", "Vector3")], "CFrameValue": [("Value", "CFrame")],
    "Color3Value": [("Value", "Color3")], "BinaryStringValue": [("Value", "BinaryString")],
    "ObjectValue": [("Value", "Ref")], "Model": [("ModelMeshData", "SharedString"), ("WorldPivotData", "OptionalCFrame")],
    "TextLabel": [("Text", "String"), ("FontFace", "Font"), ("TextSize", "Float32"), ("Size", "UDim2"), ("TextColor3", "Color3")],
    "ParticleEmitter": [("Size", "NumberSequence"), ("Color", "ColorSequence"), ("Lifetime", "NumberRange")],
    "Decal": [("Texture", "ContentId"), ("TextureContent", "Content")],
    "Folder": [("HistoryId", "UniqueId")], "ImageLabel": [("SliceCenter", "Rect")], "RayValue": [("Value", "Ray")],
    "Handles": [("Faces", "Faces")], "ArcHandles": [("Axes", "Axes")], "MeshPart": [("PhysicsData", "BinaryString")],
    "Sound": [("SoundId", "ContentId")],
    # references under a spelling that is not the canonical one: the serialized names of WeldConstraint.Part0 / Part1
    # (the only spelling real files use) and the deprecated alias part1 of JointInstance.Part1
    "WeldConstraint": [("Part0Internal", "Ref"), ("Part1Internal", "Ref")], "Weld": [("part1", "Ref"), ("Part0", "Ref")],
    # several shared-string properties per document, so that one dictionary entry is used more than once
    "UnionOperation": [("MeshData2", "SharedString"), ("ChildData2", "SharedString")], "WrapTarget": [("HSRData", "SharedString")],
}


def generate(rng, ep):
    n = rng.randrange(1, 8)
    classes = list(CATALOG)
    insts = []
    for k in range(n):
        parent = 0 if k == 0 or rng.random() < 0.25 else rng.randrange(1, k + 1)
        insts.append({"class": rng.choice(classes), "parent": parent, "kids": []})
    # pre-order renumbering
    order = []

    def visit(k):
        order.append(k)
        for j in range(n):
            if insts[j]["parent"] == k + 1:
                visit(j)
    for k in range(n):
        if insts[k]["parent"] == 0:
            visit(k)
    pos = {old: new + 1 for new, old in enumerate(order)}
    forest = []
    for old in order:
        i = insts[old]
        forest.append({"class": i["class"], "parent": pos[i["parent"] - 1] if i["parent"] else 0, "kids": [], "props": []})
    for k, f in enumerate(forest):
        if f["parent"]:
            forest[f["parent"] - 1]["kids"].append(k + 1)
    roots = [k + 1 for k, f in enumerate(forest) if f["parent"] == 0]
    # referents
    style = rng.choice(["uuid", "num", "words"])
    refs = []
    for k in range(n):
        if style == "uuid":
            refs.append("RBX" + "".join(rng.choice("0123456789ABCDEF") for _ in range(32)))
        elif style == "num":
            refs.append(str(1000 - 7 * k))
        else:
            refs.append("ref-%d_x" % (k * 3))
    shared = {}
    writers = []
    for k, f in enumerate(forest):
        name = rng.choice(["Thing", f["class"], "A b", "", "  lead", "x&y<z"])
        f["name"] = list(name.encode())
        f["class_b"] = list(f["class"].encode())
        props = []
        plist = [p for p in CATALOG[f["class"]] if rng.random() < 0.8]
        # properties a newer writer knows and the reader's database does not: skipped under the default options,
        # and skipping them must not disturb the known properties written before or after them
        plist += [p for p in (("VerifFutureFlag", "Bool"), ("VerifFutureLink", "Ref"), ("VerifFutureBlob", "SharedString"),
                              ("VerifFutureText", "String")) if rng.random() < 0.3]
        for pname, ty in plist:
            if ty == "Ref":
                tgt = rng.choice([0] + list(range(1, n + 1)))
                pv = {"t": "Ref", "v": tgt}
                w = (lambda tgt: lambda nm: ['<Ref name="%s">%s</Ref>' % (nm, "null" if tgt == 0 else refs[tgt - 1])])(tgt)
            elif ty == "SharedString":
                # half of the time a value already in the dictionary: one entry, several users
                data = rng.choice(list(shared.values())) if shared and rng.random() < 0.5 else rng.choice([b"", b"shared payload", bytes(range(40)), b"\x00\xff second"])
                key = base64.b64encode(("k%d" % len(data)).encode().ljust(16, b"_")).decode()
                shared[key] = data
                pv = {"t": "SharedString", "v": list(data)}
                w = (lambda key: lambda nm: ['<SharedString name="%s">%s</SharedString>' % (nm, key)])(key)
            else:
                pv, w = make_value(rng, ty, n)
            props.append((pname, pv, w))
        props.sort(key=lambda p: p[0])
        f["props"] = [[p[0], p[1], list(p[0].encode())] for p in props]
        elems = [('Name', None, (lambda name: lambda nm: ['<string name="Name">%s</string>' % (
            "<![CDATA[%s]]>" % name if (name != name.strip() or name == "") else text_esc(name))])(name))] + [(p[0], p[1], p[2]) for p in props]
        rng.shuffle(elems)                      # any property order
        writers.append(elems)

    d = Doc(rng)
    attrs = rng.choice(['version="4"', 'xmlns:xmime="http://www.w3.org/2005/05/xmlmime" xmlns:xsi="http://www.w3.org/2001/XMLSchema-instance" xsi:noNamespaceSchemaLocation="http://www.roblox.com/roblox.xsd" version="4"'])
    d.line(0, '<roblox %s>' % attrs)
    if rng.random() < 0.5:
        d.line(1, '<Meta name="ExplicitAutoJoints">true</Meta>')
    if rng.random() < 0.5:
        d.line(1, '<External>null</External>')
        d.line(1, '<External>nil</External>')
    props_last = rng.random() < 0.2

    def emit(k, depth):
        f = forest[k - 1]
        d.line(depth, '<Item class="%s" referent="%s">' % (f["class"], refs[k - 1]))

        def props():
            d.line(depth + 1, '<Properties>')
            for nm, pv, w in writers[k - 1]:
                for ln in w(nm):
                    d.line(depth + 2, ln)
            d.line(depth + 1, '</Properties>')
        if not props_last:
            props()
        for c in f["kids"]:
            emit(c, depth + 1)
        if props_last:
            props()
        d.line(depth, '</Item>')
    def dictionary():
        d.line(1, '<SharedStrings>')
        for key, data in shared.items():
            d.line(2, '<SharedString md5="%s">%s</SharedString>' % (key, wrap64(d.rng, base64.b64encode(data).decode())))
        d.line(1, '</SharedStrings>')
    # docs/xml.md makes SharedStrings a child of the roblox element and does not fix its position
    where = len(roots) if (not shared or rng.random() < 0.55) else rng.randrange(0, len(roots) + 1)
    for i, r in enumerate(roots):
        if shared and i == where:
            dictionary()
        emit(r, 1)
    if shared and where >= len(roots):
        dictionary()
    d.line(0, '</roblox>')
    return {"ep": ep, "logical": {"roots": roots, "inst": forest}, "text": "".join(d.out),
            "style": {"referents": style, "props_last": props_last, "dictionary_at": where}}


def main():
    ap = argparse.ArgumentParser()
    ap.add_argument("--seed", type=int, default=1)
    ap.add_argument("--count", type=int, default=100)
    a = ap.parse_args()
    rng = random.Random(a.seed)
    for i in range(a.count):
        print(json.dumps(generate(rng, "fxml:%d:%d" % (a.seed, i))))


if __name__ == "__main__":
    main()

#!/usr/bin/env python3
"""Run checks against a seeded change WITHOUT touching /repo: a scratch worktree of /repo gets the patch, a
scratch copy of /verif is pointed at it, the named checks run there, the box is removed.  Several boxes can
run side by side.   usage: try_seed_box.py <patch.diff> <check-id> [...] [--tier quick|thorough] [--keep]"""
import json, os, shutil, subprocess, sys, time

args = sys.argv[1:]
tier = "quick"
keep = "--keep" in args
args = [a for a in args if a != "--keep"]
if "--tier" in args:
    i = args.index("--tier"); tier = args[i + 1]; del args[i:i + 2]
patch, ids = os.path.abspath(args[0]), args[1:]
name = "%s-%d" % (os.path.basename(os.path.dirname(patch)), os.getpid())
box = "/tmp/seedbox/" + name
repo, verif = box + "/repo", box + "/verif"
os.makedirs(box, exist_ok=True)
subprocess.run(["git", "-C", "/repo", "worktree", "add", "--detach", repo, "HEAD"], check=True, stdout=subprocess.DEVNULL, stderr=subprocess.DEVNULL)
results = {}
try:
    subprocess.run(["git", "-C", repo, "apply", patch], check=True)
    if not os.path.exists(repo + "/Cargo.lock"):
        shutil.copy("/repo/Cargo.lock", repo + "/Cargo.lock")      # not tracked in the repository
    subprocess.run(["rsync", "-a", "--exclude", ".git", "--exclude", "out", "--exclude", "evidence", "--exclude", "harness/target", "/verif/", verif + "/"], check=True)
    os.makedirs(verif + "/out", exist_ok=True)
    os.makedirs(verif + "/evidence", exist_ok=True)
    for rel in ("harness/Cargo.toml", "lib/common.py", "tools/foreign_attr.py", "tools/gen_rotation_table.py", "harness/src/serdecase.rs"):
        p = os.path.join(verif, rel)
        s = open(p).read().replace("/repo/", repo + "/").replace('"/repo"', '"%s"' % repo)
        open(p, "w").write(s)
    for cid in ids:
        t = time.time()
        p = subprocess.run(["./check", cid, "--tier", tier], cwd=verif, stdout=subprocess.PIPE, stderr=subprocess.STDOUT, text=True)
        viol = [l for l in p.stdout.splitlines() if l.startswith("VIOLATION") or l.startswith("  signature") or l.startswith("TOOL-ERROR")]
        results[cid] = {"rc": p.returncode, "wall_s": round(time.time() - t), "lines": viol[:6]}
        print(os.path.basename(os.path.dirname(patch)), cid, "rc=%d" % p.returncode, "%ds" % (time.time() - t), "; ".join(viol[:3])[:400], flush=True)
finally:
    if not keep:
        subprocess.run(["git", "-C", "/repo", "worktree", "remove", "--force", repo], stdout=subprocess.DEVNULL, stderr=subprocess.DEVNULL)
        shutil.rmtree(box, ignore_errors=True)
        subprocess.run(["git", "-C", "/repo", "worktree", "prune"])
print(json.dumps(results))

#!/usr/bin/env python3
"""Diagnostic only: show how before/after forests of a logged case differ (never decides anything)."""
import json, sys
path, ep = sys.argv[1], sys.argv[2]
for l in open(path):
    e = json.loads(l)
    if e['ep'] != ep: continue
    B = e['before']; A = e['modes']['none'].get('after')
    if not A: print(e['modes']['none']); break
    print('N', len(B['inst']), len(A['inst']), 'roots', B['roots'], A['roots'])
    for k,(b,a) in enumerate(zip(B['inst'],A['inst'])):
        for f in ('class','name','parent','kids'):
            if b[f]!=a[f]: print(k+1,f,b[f],a[f])
        bp={p[0]:p[1] for p in b['props']}; ap={p[0]:p[1] for p in a['props']}
        for n in sorted(set(bp)|set(ap)):
            if bp.get(n)!=ap.get(n): print(k+1,b['class'],n,'\n   B',json.dumps(bp.get(n))[:300],'\n   A',json.dumps(ap.get(n))[:300])

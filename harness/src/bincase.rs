//! Binary-format cases: build a DOM, write it with rbx_binary under each compression mode, split
//! the bytes into header and chunks (framing per docs/binary.md; payloads decompressed with the
//! third-party lz4/zstd crates), read the bytes back, and log everything for BinaryFormatTrace.tla.

use std::io::Write;
use std::panic::{catch_unwind, AssertUnwindSafe};

use rand::rngs::StdRng;
use rand::{Rng, SeedableRng};
use rbx_binary::{CompressionType, Serializer};
use rbx_dom_weak::types::Ref;
use rbx_dom_weak::WeakDom;
use serde_json::{json, Value};

use crate::gen;
use crate::pval::{bytes, pforest};

pub fn panic_msg(e: Box<dyn std::any::Any + Send>) -> String {
    e.downcast_ref::<String>()
        .cloned()
        .or_else(|| e.downcast_ref::<&str>().map(|s| s.to_string()))
        .unwrap_or_default()
}

/// Split a binary file into header and chunks. Returns Err(text) when the framing is broken.
pub fn split_file(data: &[u8]) -> Result<Value, String> {
    if data.len() < 32 {
        return Err("shorter than a header".into());
    }
    let mut chunks = Vec::new();
    let mut pos = 32;
    let mut ended = false;
    while pos < data.len() && !ended {
        if pos + 16 > data.len() {
            return Err("truncated chunk frame".into());
        }
        let frame = &data[pos..pos + 16];
        let name = String::from_utf8_lossy(&frame[0..4]).trim_end_matches('\0').to_string();
        let clen = u32::from_le_bytes(frame[4..8].try_into().unwrap()) as usize;
        let len = u32::from_le_bytes(frame[8..12].try_into().unwrap()) as usize;
        let stored = if clen == 0 { len } else { clen };
        if pos + 16 + stored > data.len() {
            return Err("truncated chunk body".into());
        }
        let body = &data[pos + 16..pos + 16 + stored];
        let (payload, method) = if clen == 0 {
            (body.to_vec(), "none")
        } else if body.len() >= 4 && body[0..4] == [0x28, 0xb5, 0x2f, 0xfd] {
            (zstd::bulk::decompress(body, len.max(1) + 64).map_err(|e| e.to_string())?, "zstd")
        } else {
            (lz4::block::decompress(body, Some(len as i32)).map_err(|e| e.to_string())?, "lz4")
        };
        chunks.push(json!({"name": name, "frame": bytes(frame), "stored": stored, "method": method, "payload": bytes(&payload)}));
        pos += 16 + stored;
        if name == "END" {
            ended = true;
        }
    }
    Ok(json!({"header": bytes(&data[0..32]), "chunks": chunks, "trailing": data.len() - pos, "size": data.len()}))
}

/// rbx_binary's debugging decoder (`text_format::DecodedModel`, what `rbx_util view-binary` prints), with its
/// chunk list reshaped into uniform records; values are left out, the structure is what TextView checks.
pub fn text_view(data: &[u8]) -> Value {
    let r = std::panic::catch_unwind(|| serde_json::to_value(rbx_binary::text_format::DecodedModel::from_reader(data)));
    let model = match r {
        Ok(Ok(v)) => v,
        Ok(Err(e)) => return json!({"outcome": "err", "detail": e.to_string()}),
        Err(p) => return json!({"outcome": "panic", "detail": panic_msg(p)}),
    };
    let mut chunks = Vec::new();
    for ch in model["chunks"].as_array().cloned().unwrap_or_default() {
        if ch.as_str() == Some("End") {
            chunks.push(json!({"k": "END"}));
            continue;
        }
        let (tag, body) = match ch.as_object().and_then(|o| o.iter().next()) {
            Some((t, b)) => (t.clone(), b.clone()),
            None => {
                chunks.push(json!({"k": "?"}));
                continue;
            }
        };
        let sb = |v: &Value| bytes(v.as_str().unwrap_or("").as_bytes());
        chunks.push(match tag.as_str() {
            "Meta" => json!({"k": "META", "entries": body["entries"].as_array().map(|a| a.iter().map(|e| json!([sb(&e[0]), sb(&e[1])])).collect::<Vec<_>>()).unwrap_or_default()}),
            "Sstr" => json!({"k": "SSTR", "version": body["version"], "lens": body["entries"].as_array().map(|a| a.iter().map(|e| e["len"].clone()).collect::<Vec<_>>()).unwrap_or_default()}),
            "Inst" => json!({"k": "INST", "id": body["type_id"], "class": sb(&body["type_name"]), "format": body["object_format"], "refs": body["referents"]}),
            "Prop" => json!({"k": "PROP", "id": body["type_id"], "name": sb(&body["prop_name"]),
                             "type": body["prop_type"].as_str().unwrap_or("?"),
                             "has_values": body.get("values").map(|v| !v.is_null()).unwrap_or(false)}),
            "Prnt" => json!({"k": "PRNT", "version": body["version"],
                             "child": body["links"].as_array().map(|a| a.iter().map(|l| l[0].clone()).collect::<Vec<_>>()).unwrap_or_default(),
                             "parent": body["links"].as_array().map(|a| a.iter().map(|l| l[1].clone()).collect::<Vec<_>>()).unwrap_or_default()}),
            "Unknown" => json!({"k": "UNKNOWN", "name": body["name"]}),
            _ => json!({"k": "?"}),
        });
    }
    json!({"outcome": "ok", "num_types": model["num_types"], "num_instances": model["num_instances"], "chunks": chunks})
}

pub fn compression_name(c: CompressionType) -> &'static str {
    match c {
        CompressionType::None => "none",
        CompressionType::Lz4 => "lz4",
        CompressionType::Zstd => "zstd",
    }
}

/// Write `roots` of `dom` under one compression mode; Ok(bytes) / Err(kind)
/// The database the binary codec is configured with in this run: None = the bundled one (the default of the
/// library), Some = a patched copy handed to Serializer / Deserializer::reflection_database.
static ACTIVE_DB: std::sync::OnceLock<&'static rbx_reflection::ReflectionDatabase<'static>> = std::sync::OnceLock::new();

/// A copy of the bundled database with other defaults for a few properties (docs/patching-database.md: a
/// codec can be given a database of one's own).  Leaked: it lives as long as the process.
pub fn patched_db() -> &'static rbx_reflection::ReflectionDatabase<'static> {
    use rbx_dom_weak::types::{Color3uint8, Variant, Vector3};
    let mut db = rbx_reflection_database::get().clone();
    for (class, prop, value) in [
        ("Part", "Size", Variant::Vector3(Vector3::new(9.0, 8.0, 7.0))),
        ("Part", "Color", Variant::Color3uint8(Color3uint8::new(1, 2, 3))),
        ("Part", "Transparency", Variant::Float32(0.5)),
        ("TextLabel", "Text", Variant::String("PatchedDefault".into())),
        ("TrussPart", "Size", Variant::Vector3(Vector3::new(6.0, 6.0, 6.0))),
    ] {
        db.classes.get_mut(class).unwrap().default_properties.insert(prop.into(), value);
    }
    Box::leak(Box::new(db))
}

pub fn use_patched_db() {
    let _ = ACTIVE_DB.set(patched_db());
}

pub fn write_bin(dom: &WeakDom, roots: &[Ref], c: CompressionType) -> Result<Vec<u8>, String> {
    let mut buf = Vec::new();
    let r = catch_unwind(AssertUnwindSafe(|| match ACTIVE_DB.get() {
        Some(db) => Serializer::new().reflection_database(db).compression_type(c).serialize(&mut buf, dom, roots),
        None => Serializer::new().compression_type(c).serialize(&mut buf, dom, roots),
    }));
    match r {
        Ok(Ok(())) => Ok(buf),
        Ok(Err(e)) => Err(format!("err:{}", e)),
        Err(p) => Err(format!("panic:{}", panic_msg(p))),
    }
}

pub fn read_bin(data: &[u8]) -> Result<WeakDom, String> {
    let r = catch_unwind(AssertUnwindSafe(|| match ACTIVE_DB.get() {
        Some(db) => rbx_binary::Deserializer::new().reflection_database(db).deserialize(data),
        None => rbx_binary::from_reader(data),
    }));
    match r {
        Ok(Ok(dom)) => Ok(dom),
        Ok(Err(e)) => Err(format!("err:{}", e)),
        Err(p) => Err(format!("panic:{}", panic_msg(p))),
    }
}

pub fn outcome_class(s: &str) -> &str {
    s.split(':').next().unwrap_or("")
}

/// Full event for one DOM and root selection.
pub fn bin_event(ep: &str, dom: &WeakDom, roots: &[Ref], with_bytes: bool) -> Value {
    bin_event_modes(ep, dom, roots, with_bytes, &[CompressionType::None, CompressionType::Lz4, CompressionType::Zstd])
}

pub fn bin_event_modes(ep: &str, dom: &WeakDom, roots: &[Ref], with_bytes: bool, modes: &[CompressionType]) -> Value {
    let before = pforest(dom, roots);
    let mut ev = json!({"ep": ep, "op": "bin_case", "before": before, "modes": {}});
    for c in modes.iter().copied() {
        let cname = compression_name(c);
        let mut m = json!({});
        match write_bin(dom, roots, c) {
            Ok(data) => {
                m["write"] = json!("ok");
                if with_bytes || (c == CompressionType::None && modes.len() > 1) {
                    match split_file(&data) {
                        Ok(f) => m["file"] = f,
                        Err(e) => m["file"] = json!({"broken": e}),
                    }
                    if std::env::var("RBXV_TEXT_VIEW").is_ok() {
                        m["view"] = text_view(&data);
                    }
                } else {
                    m["file"] = json!({"skipped": 1});
                }
                match read_bin(&data) {
                    Ok(back) => {
                        m["read"] = json!("ok");
                        let kids: Vec<Ref> = back.root().children().to_vec();
                        m["after"] = pforest(&back, &kids);
                        m["root_class"] = json!(back.root().class.as_str());
                    }
                    Err(e) => {
                        m["read"] = json!(outcome_class(&e));
                        m["read_detail"] = json!(e);
                    }
                }
            }
            Err(e) => {
                m["write"] = json!(outcome_class(&e));
                m["write_detail"] = json!(e);
            }
        }
        ev["modes"][cname] = m;
    }
    ev
}

fn pick_roots(rng: &mut StdRng, dom: &WeakDom) -> Vec<Ref> {
    let top: Vec<Ref> = dom.root().children().to_vec();
    match rng.gen_range(0..4) {
        0 | 1 => top,
        2 => {
            // a random antichain: walk all instances, take some whose ancestors were not taken
            let mut chosen: Vec<Ref> = Vec::new();
            for inst in dom.descendants().skip(1) {
                let mut anc = inst.parent();
                let mut under = false;
                while anc.is_some() {
                    if chosen.contains(&anc) {
                        under = true;
                        break;
                    }
                    anc = dom.get_by_ref(anc).map(|i| i.parent()).unwrap_or(Ref::none());
                }
                if !under && rng.gen_bool(0.3) {
                    chosen.push(inst.referent());
                }
            }
            // keep only an antichain (remove any chosen that is a descendant of a later chosen)
            let c2 = chosen.clone();
            chosen.retain(|r| {
                let mut anc = dom.get_by_ref(*r).unwrap().parent();
                while anc.is_some() {
                    if c2.contains(&anc) {
                        return false;
                    }
                    anc = dom.get_by_ref(anc).map(|i| i.parent()).unwrap_or(Ref::none());
                }
                true
            });
            chosen
        }
        _ => {
            let mut t = top;
            t.reverse();
            t
        }
    }
}

pub fn run_random(seed: u64, count: usize, max_instances: usize, mode: &str, out: &mut dyn Write) {
    std::panic::set_hook(Box::new(|_| {}));
    let db = rbx_reflection_database::get();
    let known = gen::known_props(db);
    let mut rng = StdRng::seed_from_u64(seed);
    for i in 0..count {
        let spec = gen::DomSpec {
            max_instances: if i % 7 == 0 { 1 } else { max_instances },
            max_depth: 5,
            known_classes: mode != "unknown",
            unknown_classes: mode != "known",
            types: gen::BINARY_TYPES.to_vec(),
            xml_safe: false,
            props_per_instance: 4,
        };
        let dom = if mode == "shapes" || mode == "scale" { gen::shaped_dom(&mut rng, false, mode == "scale", &known) } else { gen::random_dom(&mut rng, &spec, &known) };
        let roots = pick_roots(&mut rng, &dom);
        let ev = bin_event(&format!("bin:{}:{}", seed, i), &dom, &roots, i % 4 == 0);
        serde_json::to_writer(&mut *out, &ev).unwrap();
        out.write_all(b"\n").unwrap();
    }
}

/// C16 closure: one instance per database class populated with the class's full default property
/// set (nearest default on the superclass chain wins).
pub fn run_defaults(out: &mut dyn Write, with_bytes_every: usize) {
    std::panic::set_hook(Box::new(|_| {}));
    let db = rbx_reflection_database::get();
    let mut names: Vec<&str> = db.classes.keys().map(|k| k.as_ref()).collect();
    names.sort();
    for (i, cname) in names.iter().enumerate() {
        let mut props: Vec<(String, rbx_dom_weak::types::Variant)> = Vec::new();
        let mut cur = db.classes.get(*cname);
        while let Some(c) = cur {
            let mut dn: Vec<_> = c.default_properties.iter().collect();
            dn.sort_by(|a, b| a.0.cmp(b.0));
            for (k, v) in dn {
                if !props.iter().any(|(n, _)| n == k.as_ref()) {
                    props.push((k.to_string(), v.clone()));
                }
            }
            cur = c.superclass.as_ref().and_then(|s| db.classes.get(s.as_ref()));
        }
        let mut dom = WeakDom::new(rbx_dom_weak::InstanceBuilder::new("DataModel"));
        let root = dom.root_ref();
        let mut b = rbx_dom_weak::InstanceBuilder::new(*cname).with_name(format!("Default{}", cname));
        for (k, v) in props {
            if k == "UniqueId" {
                continue;
            }
            b.add_property(k.as_str(), v);
        }
        let r = dom.insert(root, b);
        let ev = bin_event(&format!("defaults:{}", cname), &dom, &[r], with_bytes_every > 0 && i % with_bytes_every == 0);
        serde_json::to_writer(&mut *out, &ev).unwrap();
        out.write_all(b"\n").unwrap();
    }
}

/// C16 closure: every serializable, non-migrating descriptor (canonical and alias spellings) once,
/// as a one-property instance with a generated value of the declared type; several per case.
pub fn run_descriptors(seed: u64, per_case: usize, out: &mut dyn Write) {
    std::panic::set_hook(Box::new(|_| {}));
    let db = rbx_reflection_database::get();
    let known = gen::known_props(db);
    let mut rng = StdRng::seed_from_u64(seed);
    for (ci, chunk) in known.chunks(per_case).enumerate() {
        let mut dom = WeakDom::new(rbx_dom_weak::InstanceBuilder::new("DataModel"));
        let root = dom.root_ref();
        let mut roots = Vec::new();
        for k in chunk {
            if k.name == "UniqueId" || k.name == "Name" {
                continue;
            }
            if let Some(v) = gen::value_of(k.ty, &mut rng, &roots, false) {
                let b = rbx_dom_weak::InstanceBuilder::new(k.class.as_str()).with_name("D").with_property(k.name.as_str(), v);
                roots.push(dom.insert(root, b));
            }
        }
        let ev = bin_event(&format!("desc:{}:{}", seed, ci), &dom, &roots, ci % 10 == 0);
        serde_json::to_writer(&mut *out, &ev).unwrap();
        out.write_all(b"\n").unwrap();
    }
}

/// Every boundary value of every type (gen::boundary_values) under a known canonical spelling, an alias spelling and
/// an unknown class; independent of the seed.
pub fn run_boundary(k: usize, out: &mut dyn Write) {
    std::panic::set_hook(Box::new(|_| {}));
    let known = gen::known_props(rbx_reflection_database::get());
    for (ci, (label, dom)) in gen::boundary_doms(&gen::BINARY_TYPES, &known, false, k, true, 6).into_iter().enumerate() {
        let roots: Vec<Ref> = dom.root().children().to_vec();
        let ev = bin_event(&format!("bound:{}", label), &dom, &roots, ci % 10 == 0);
        serde_json::to_writer(&mut *out, &ev).unwrap();
        out.write_all(b"\n").unwrap();
    }
}

/// A value for property `name` of class `class`, typed by the descriptor's own declared type
/// (alias spellings have their own type, e.g. Color3uint8), distinct per `salt`.
pub fn value_for_spelling(class: &str, name: &str, salt: u32) -> rbx_dom_weak::types::Variant {
    use rbx_dom_weak::types::*;
    use rbx_reflection::DataType;
    let db = rbx_reflection_database::get();
    let mut cur = db.classes.get(class);
    let mut ty = None;
    while let Some(c) = cur {
        if let Some(p) = c.properties.get(name) {
            ty = Some(match &p.data_type {
                DataType::Value(t) => *t,
                DataType::Enum(_) => VariantType::Enum,
                _ => VariantType::String,
            });
            break;
        }
        cur = c.superclass.as_ref().and_then(|s| db.classes.get(s.as_ref()));
    }
    let s = salt;
    match ty {
        Some(VariantType::Color3) => Variant::Color3(Color3::new((s % 256) as f32 / 255.0, ((s * 7) % 256) as f32 / 255.0, 0.5)),
        Some(VariantType::Color3uint8) => Variant::Color3uint8(Color3uint8::new((s % 200) as u8 + 1, (s * 3 % 250) as u8, 9)),
        Some(VariantType::BrickColor) => {
            let nums = crate::gen::BRICK_NUMBERS;
            Variant::BrickColor(BrickColor::from_number(nums[(s as usize) % nums.len()]).unwrap())
        }
        Some(VariantType::Vector3) => Variant::Vector3(Vector3::new(s as f32, 2.0, 3.5)),
        Some(VariantType::Bool) => Variant::Bool(s % 2 == 0),
        // the writer also accepts an EnumItem where the column holds Enums; classes without database defaults
        // (Player) get both forms, so a column's neutral default is exercised with either form seen first
        Some(VariantType::Enum) if class == "Player" && (s / 10) % 2 == 1 => Variant::EnumItem(EnumItem { ty: name.to_string(), value: 1 + s % 2 }),
        Some(VariantType::Enum) => Variant::Enum(Enum::from_u32(if name == "Font" { [1u32, 3, 10, 17, 45][(s as usize) % 5] } else { 1 + s % 2 })),
        Some(VariantType::Font) => Variant::Font(Font::new(&format!("rbxasset://fonts/families/F{}.json", s), FontWeight::Bold, FontStyle::Italic)),
        Some(VariantType::ContentId) => Variant::ContentId(format!("rbxassetid://{}", 100 + s).into()),
        Some(VariantType::Content) => Variant::Content(crate::gen::content_uri(&format!("rbxassetid://{}", 900 + s))),
        Some(VariantType::String) => Variant::String(format!("text{}", s)),
        Some(VariantType::Float32) => Variant::Float32(s as f32 + 0.25),
        Some(VariantType::Int32) => Variant::Int32(s as i32),
        Some(other) => {
            let mut rng = StdRng::seed_from_u64(s as u64);
            crate::gen::value_of(other, &mut rng, &[], false).unwrap_or(Variant::Int32(s as i32))
        }
        None => match name.as_bytes().last() {
            Some(b'S') => Variant::String(format!("u{}", s)),
            Some(b'V') => Variant::Vector3(Vector3::new(s as f32, 0.0, 1.0)),
            // a type whose values live in a side table of the file (SSTR): the neutral value given to an instance that
            // lacks the property must be registered there too
            Some(b'H') => Variant::SharedString(SharedString::new(format!("shared{}", s).into_bytes())),
            _ => Variant::Int32(1000 + s as i32),
        },
    }
}

/// Populations enumerated by TLC (ndjson: {"ep":..,"class":..,"insts":[[names..]..]}): build the
/// DOM, write/read it, and also write every instance on its own (C08: success of the whole is
/// implied by success of each).
pub fn run_populations(input: &mut dyn std::io::BufRead, out: &mut dyn Write) {
    use std::io::BufRead as _;
    let mut text = String::new();
    input.read_to_string(&mut text).unwrap();
    std::panic::set_hook(Box::new(|_| {}));
    for line in text.lines() {
        if line.trim().is_empty() {
            continue;
        }
        let case: Value = serde_json::from_str(line).unwrap();
        let class = case["class"].as_str().unwrap();
        let mut dom = WeakDom::new(rbx_dom_weak::InstanceBuilder::new("DataModel"));
        let root = dom.root_ref();
        let mut roots = Vec::new();
        let companion = |dom: &mut WeakDom, roots: &mut Vec<Ref>| {
            let c = &case["companion"];
            let cclass = c["class"].as_str().unwrap();
            let mut b = rbx_dom_weak::InstanceBuilder::new(cclass).with_name("Companion");
            for (j, n) in c["props"].as_array().unwrap().iter().enumerate() {
                let n = n.as_str().unwrap();
                b.add_property(n, value_for_spelling(cclass, n, 900 + j as u32));
            }
            roots.push(dom.insert(root, b));
        };
        let companion_first = case["companion"]["first"].as_bool();
        if companion_first == Some(true) {
            companion(&mut dom, &mut roots);
        }
        for (i, names) in case["insts"].as_array().unwrap().iter().enumerate() {
            let id = case["ids"].as_array().map(|a| a[i].as_u64().unwrap() as u32).unwrap_or(i as u32 + 1);
            let mut b = rbx_dom_weak::InstanceBuilder::new(class).with_name(format!("I{}", id));
            for (j, n) in names.as_array().unwrap().iter().enumerate() {
                let n = n.as_str().unwrap();
                b.add_property(n, value_for_spelling(class, n, id * 10 + j as u32));
            }
            roots.push(dom.insert(root, b));
        }
        if companion_first == Some(false) {
            companion(&mut dom, &mut roots);
        }
        let mut ev = bin_event_modes(case["ep"].as_str().unwrap(), &dom, &roots, false, &[CompressionType::None]);
        ev["op"] = json!("bin_pop");
        let singles: Vec<Value> = roots
            .iter()
            .map(|r| match write_bin(&dom, &[*r], CompressionType::None) {
                Ok(_) => json!("ok"),
                Err(e) => json!(outcome_class(&e)),
            })
            .collect();
        ev["singles"] = json!(singles);
        serde_json::to_writer(&mut *out, &ev).unwrap();
        out.write_all(b"\n").unwrap();
    }
}

/// Column stress: several instances of ONE class that all carry the same properties, of the types whose
/// values have variable length or side tables (Content, Ref, SharedString, strings, CFrame, OptionalCFrame,
/// PhysicalProperties, sequences, Font): the cases in which a column's values can be permuted or shifted.
pub fn run_columns(seed: u64, count: usize, out: &mut dyn Write) {
    use rbx_dom_weak::types::VariantType as T;
    std::panic::set_hook(Box::new(|_| {}));
    let mut rng = StdRng::seed_from_u64(seed);
    let pool = [T::Content, T::Ref, T::SharedString, T::String, T::BinaryString, T::CFrame, T::OptionalCFrame, T::PhysicalProperties,
                T::NumberSequence, T::ColorSequence, T::Font, T::Attributes, T::Tags, T::UniqueId, T::Int64, T::Bool];
    for i in 0..count {
        let n = rng.gen_range(2..7);
        let mut dom = WeakDom::new(rbx_dom_weak::InstanceBuilder::new("DataModel"));
        let root = dom.root_ref();
        let mut refs = Vec::new();
        for k in 0..n {
            let parent = if k == 0 || rng.gen_bool(0.6) { root } else { refs[rng.gen_range(0..refs.len())] };
            refs.push(dom.insert(parent, rbx_dom_weak::InstanceBuilder::new("VerifUnknownCol").with_name(format!("C{}", k))));
        }
        let kinds: Vec<T> = (0..rng.gen_range(1..5)).map(|_| pool[rng.gen_range(0..pool.len())]).collect();
        for r in refs.clone() {
            for (j, ty) in kinds.iter().enumerate() {
                if let Some(v) = gen::value_of(*ty, &mut rng, &refs, false) {
                    dom.get_by_ref_mut(r).unwrap().properties.insert(format!("P{}{:?}", j, ty).as_str().into(), v);
                }
            }
        }
        let roots: Vec<Ref> = dom.root().children().to_vec();
        let ev = bin_event(&format!("col:{}:{}", seed, i), &dom, &roots, i % 3 == 0);
        serde_json::to_writer(&mut *out, &ev).unwrap();
        out.write_all(b"\n").unwrap();
    }
}

/// Huge exact-identity forests (gen::huge_dom): logged by fingerprint only.
pub fn run_huge(seed: u64, count: usize, out: &mut dyn Write) {
    std::panic::set_hook(Box::new(|_| {}));
    let mut rng = StdRng::seed_from_u64(seed);
    for i in 0..count {
        let dom = gen::huge_dom(&mut rng, i + seed as usize);
        let roots: Vec<Ref> = dom.root().children().to_vec();
        let mut ev = json!({"ep": format!("binhuge:{}:{}", seed, i), "op": "bin_fp", "fp_before": crate::pval::forest_fp(&dom, &roots),
                            "instances": dom.descendants().count() - 1, "modes": {}});
        for c in [CompressionType::None, CompressionType::Lz4, CompressionType::Zstd] {
            let mut m = json!({});
            match write_bin(&dom, &roots, c) {
                Ok(data) => {
                    m["write"] = json!("ok");
                    m["bytes"] = json!(data.len());
                    match read_bin(&data) {
                        Ok(back) => {
                            m["read"] = json!("ok");
                            let kids: Vec<Ref> = back.root().children().to_vec();
                            m["fp_after"] = json!(crate::pval::forest_fp(&back, &kids));
                        }
                        Err(e) => m["read"] = json!(outcome_class(&e)),
                    }
                }
                Err(e) => m["write"] = json!(outcome_class(&e)),
            }
            ev["modes"][compression_name(c)] = m;
        }
        serde_json::to_writer(&mut *out, &ev).unwrap();
        out.write_all(b"\n").unwrap();
    }
}

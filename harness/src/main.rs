mod dom;

use std::io::{BufWriter, Write};

fn arg(args: &[String], name: &str, default: &str) -> String {
    args.iter()
        .position(|a| a == name)
        .and_then(|i| args.get(i + 1).cloned())
        .unwrap_or_else(|| default.to_string())
}

fn main() {
    let args: Vec<String> = std::env::args().collect();
    let cmd = args.get(1).map(|s| s.as_str()).unwrap_or("");
    let stdout = std::io::stdout();
    let mut out = BufWriter::new(stdout.lock());
    match cmd {
        "dom-run" => {
            let max_ref: usize = arg(&args, "--maxref", "20").parse().unwrap();
            let slots: usize = arg(&args, "--slots", "1").parse().unwrap();
            let stdin = std::io::stdin();
            dom::run(max_ref, slots, &mut stdin.lock(), &mut out);
        }
        "dom-drive" => {
            let max_ref: usize = arg(&args, "--maxref", "20").parse().unwrap();
            let slots: usize = arg(&args, "--slots", "1").parse().unwrap();
            let seed: u64 = arg(&args, "--seed", "1").parse().unwrap();
            let episodes: usize = arg(&args, "--episodes", "10").parse().unwrap();
            let steps: usize = arg(&args, "--steps", "40").parse().unwrap();
            dom::drive(seed, episodes, steps, max_ref, slots, &mut out);
        }
        _ => {
            eprintln!("usage: rbxv <subcommand> ...");
            std::process::exit(2);
        }
    }
    out.flush().unwrap();
}

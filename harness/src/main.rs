mod attrcase;
mod bincase;
mod cross;
mod db;
mod det;
mod dom;
mod faults;
mod foreign;
mod gen;
mod pval;
mod serdecase;
mod viewer;
mod sstr;
mod xmlcase;

use std::io::{BufWriter, Write};

fn arg(args: &[String], name: &str, default: &str) -> String {
    args.iter()
        .position(|a| a == name)
        .and_then(|i| args.get(i + 1).cloned())
        .unwrap_or_else(|| default.to_string())
}

fn main() {
    let args: Vec<String> = std::env::args().collect();
    let cmd = args.get(1).map(|s| s.as_str()).unwrap_or("");
    let stdout = std::io::stdout();
    let mut out = BufWriter::new(stdout.lock());
    match cmd {
        "dom-run" => {
            let max_ref: usize = arg(&args, "--maxref", "20").parse().unwrap();
            let slots: usize = arg(&args, "--slots", "1").parse().unwrap();
            let stdin = std::io::stdin();
            dom::run(max_ref, slots, &mut stdin.lock(), &mut out);
        }
        "dom-drive" => {
            let max_ref: usize = arg(&args, "--maxref", "20").parse().unwrap();
            let slots: usize = arg(&args, "--slots", "1").parse().unwrap();
            let seed: u64 = arg(&args, "--seed", "1").parse().unwrap();
            let episodes: usize = arg(&args, "--episodes", "10").parse().unwrap();
            let steps: usize = arg(&args, "--steps", "40").parse().unwrap();
            dom::drive(seed, episodes, steps, max_ref, slots, &mut out);
        }
        "bin-cases" => {
            let seed: u64 = arg(&args, "--seed", "1").parse().unwrap();
            let count: usize = arg(&args, "--count", "50").parse().unwrap();
            let maxi: usize = arg(&args, "--max-instances", "6").parse().unwrap();
            let mode = arg(&args, "--mode", "mixed");
            if mode == "huge" {
                bincase::run_huge(seed, count, &mut out);
            } else if mode == "boundary" {
                bincase::run_boundary(count, &mut out);
            } else if mode == "defaults" {
                bincase::run_defaults(&mut out, 20);
            } else if mode == "columns" {
                bincase::run_columns(seed, count, &mut out);
            } else if mode == "descriptors" {
                bincase::run_descriptors(seed, 6, &mut out);
            } else {
                bincase::run_random(seed, count, maxi, &mode, &mut out);
            }
        }
        "bin-pop" => {
            if arg(&args, "--patched", "0") == "1" {
                bincase::use_patched_db();
            }
            let stdin = std::io::stdin();
            bincase::run_populations(&mut stdin.lock(), &mut out);
        }
        "foreign-bin" => {
            let stdin = std::io::stdin();
            foreign::run(&mut stdin.lock(), &mut out);
        }
        "xml-pop" => {
            let stdin = std::io::stdin();
            xmlcase::run_populations(&mut stdin.lock(), &mut out);
        }
        "xml-foreign" => {
            let stdin = std::io::stdin();
            xmlcase::run_foreign(&mut stdin.lock(), &mut out);
        }
        "xml-cases" => {
            let seed: u64 = arg(&args, "--seed", "1").parse().unwrap();
            let count: usize = arg(&args, "--count", "50").parse().unwrap();
            let maxi: usize = arg(&args, "--max-instances", "6").parse().unwrap();
            let mode = arg(&args, "--mode", "mixed");
            if mode == "huge" {
                xmlcase::run_huge(seed, count, &mut out);
            } else if mode == "boundary" {
                xmlcase::run_boundary(count, &mut out);
            } else if mode == "bigvalues" {
                xmlcase::run_bigvalues(seed, count, &mut out);
            } else if mode == "descriptors" {
                xmlcase::run_descriptors(seed, 6, &mut out);
            } else if mode == "probe-content-object" {
                xmlcase::run_probe_content_object(&mut out);
            } else {
                xmlcase::run_random(seed, count, maxi, &mode, &mut out);
            }
        }
        "cross-cases" => {
            let seed: u64 = arg(&args, "--seed", "1").parse().unwrap();
            let count: usize = arg(&args, "--count", "50").parse().unwrap();
            let maxi: usize = arg(&args, "--max-instances", "5").parse().unwrap();
            let convert = arg(&args, "--convert", "0") == "1";
            if arg(&args, "--huge", "0") == "1" {
                cross::run_huge(seed, count, &mut out);
            } else if arg(&args, "--boundary", "0") == "1" {
                cross::run_cross_boundary(count, &mut out);
            } else if arg(&args, "--convertible", "0") == "1" {
                cross::run_cross_convertible(seed, count, &mut out);
            } else if arg(&args, "--descriptors", "0") == "1" {
                cross::run_cross_descriptors(seed, 6, &mut out);
            } else {
                cross::run_cross(seed, count, maxi, convert, &mut out);
            }
        }
        "mig-cases" => {
            let stride: usize = arg(&args, "--stride", "1").parse().unwrap();
            cross::run_migrations(stride, &mut out);
        }
        "attr-cases" => {
            let seed: u64 = arg(&args, "--seed", "1").parse().unwrap();
            let count: usize = arg(&args, "--count", "100").parse().unwrap();
            attrcase::run_random(seed, count, &mut out);
        }
        "attr-map" => {
            let seed: u64 = arg(&args, "--seed", "1").parse().unwrap();
            let episodes: usize = arg(&args, "--episodes", "50").parse().unwrap();
            let steps: usize = arg(&args, "--steps", "40").parse().unwrap();
            attrcase::run_map(seed, episodes, steps, &mut out);
        }
        "viewer" => {
            let seed: u64 = arg(&args, "--seed", "1").parse().unwrap();
            let episodes: usize = arg(&args, "--episodes", "50").parse().unwrap();
            let steps: usize = arg(&args, "--steps", "14").parse().unwrap();
            viewer::run(seed, episodes, steps, &mut out);
        }
        "attr-foreign" => {
            let stdin = std::io::stdin();
            attrcase::run_foreign(&mut stdin.lock(), &mut out);
        }
        "det-cases" => {
            let seed: u64 = arg(&args, "--seed", "1").parse().unwrap();
            let count: usize = arg(&args, "--count", "100").parse().unwrap();
            let variant: u64 = arg(&args, "--variant", "0").parse().unwrap();
            det::run(seed, count, variant, &mut out);
        }
        "faults" => {
            let kind = arg(&args, "--kind", "truncate");
            let step: usize = arg(&args, "--step", "1").parse().unwrap();
            let seed: u64 = arg(&args, "--seed", "1").parse().unwrap();
            let count: usize = arg(&args, "--count", "1000").parse().unwrap();
            match kind.as_str() {
                "truncate" => faults::run_truncate(&mut out, step),
                "schedule" => {
                    let stdin = std::io::stdin();
                    faults::run_schedules(&mut stdin.lock(), &mut out)
                }
                "sinkfail" => faults::run_sinkfail(&mut out, step),
                "structure" => faults::run_structure(&mut out),
                "mutate" => faults::run_mutate(&mut out, step, arg(&args, "--u32-step", "1").parse().unwrap()),
                "depth" => {
                    let ds: Vec<usize> = arg(&args, "--depths", "10,100,1000").split(',').map(|x| x.parse().unwrap()).collect();
                    faults::run_depth(&mut out, &ds)
                }
                _ => faults::run_random(seed, count, &mut out),
            }
        }
        "serde-cases" => {
            let seed: u64 = arg(&args, "--seed", "1").parse().unwrap();
            let per: usize = arg(&args, "--per-type", "20").parse().unwrap();
            serdecase::run(seed, per, &mut out);
        }
        "export-db" => {
            // --reencode msgpack|json: the database as it comes back from the encoding rbx_reflector writes
            // (rmp_serde::to_vec, positional structs) resp. its JSON output - a regenerated database must be
            // readable and identical
            match arg(&args, "--reencode", "").as_str() {
                "" if arg(&args, "--patched", "0") == "1" => db::export(bincase::patched_db(), &mut out),
                "" => db::export(rbx_reflection_database::get(), &mut out),
                how => {
                    let r = std::panic::catch_unwind(|| -> Result<rbx_reflection::ReflectionDatabase<'static>, String> {
                        let original = rbx_reflection_database::get();
                        if how == "json" {
                            let text = serde_json::to_string(original).map_err(|e| format!("encode: {}", e))?;
                            serde_json::from_str(&text).map_err(|e| format!("decode: {}", e))
                        } else {
                            let bytes = rmp_serde::to_vec(original).map_err(|e| format!("encode: {}", e))?;
                            rmp_serde::from_slice(&bytes).map_err(|e| format!("decode: {}", e))
                        }
                    });
                    match r {
                        Ok(Ok(again)) => db::export(&again, &mut out),
                        Ok(Err(e)) => writeln!(out, "{}", serde_json::json!({"reencode_error": e})).unwrap(),
                        Err(_) => writeln!(out, "{}", serde_json::json!({"reencode_error": "panic"})).unwrap(),
                    }
                }
            }
        }
        "db-lookups" => {
            db::export_lookups(rbx_reflection_database::get(), &mut out);
        }
        "dom-decoded" => {
            let max_ref: usize = arg(&args, "--maxref", "20").parse().unwrap();
            let seed: u64 = arg(&args, "--seed", "1").parse().unwrap();
            let episodes: usize = arg(&args, "--episodes", "10").parse().unwrap();
            let steps: usize = arg(&args, "--steps", "10").parse().unwrap();
            dom::drive_decoded(seed, episodes, steps, max_ref, &mut out);
        }
        "sstr-replay" => {
            let threads: usize = arg(&args, "--threads", "3").parse().unwrap();
            let slots: usize = arg(&args, "--slots", "2").parse().unwrap();
            let contents: i64 = arg(&args, "--contents", "2").parse().unwrap();
            let maxbuf: usize = arg(&args, "--maxbuf", "8").parse().unwrap();
            let stdin = std::io::stdin();
            sstr::replay(threads, slots, contents, maxbuf, &mut stdin.lock(), &mut out);
        }
        "sstr-stress" => {
            let threads: usize = arg(&args, "--threads", "8").parse().unwrap();
            let slots: usize = arg(&args, "--slots", "3").parse().unwrap();
            let contents: i64 = arg(&args, "--contents", "3").parse().unwrap();
            let seed: u64 = arg(&args, "--seed", "1").parse().unwrap();
            let rounds: usize = arg(&args, "--rounds", "50").parse().unwrap();
            let ops: usize = arg(&args, "--ops", "2000").parse().unwrap();
            let pairs: usize = arg(&args, "--pair-drops", "0").parse().unwrap();
            sstr::stress(seed, threads, slots, contents, rounds, ops, pairs, &mut out);
        }
        "uid-pairs" => sstr::uid_pairs(&mut out),
        "uid-stress" => {
            let threads: usize = arg(&args, "--threads", "8").parse().unwrap();
            let calls: usize = arg(&args, "--calls", "2000").parse().unwrap();
            sstr::stress_uid(threads, calls, &mut out);
        }
        _ => {
            eprintln!("usage: rbxv <subcommand> ...");
            std::process::exit(2);
        }
    }
    out.flush().unwrap();
}

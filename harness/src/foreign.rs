//! A foreign writer for the binary format, written from docs/binary.md only (it shares no code with
//! rbx_binary).  It concretises the abstract files enumerated by MCForeignBinary.tla: any class-id
//! and referent numbering, any INST/PROP/PRNT order, optional META / unknown chunks, either object
//! format, per-chunk compression, narrower legacy numeric types, PROP chunks that end after the name
//! or carry an unknown type id.  Every file it emits is first decoded by BinaryWire.tla (TLC) and must
//! mean the logical forest, so the encoder itself is held to the specification.

use std::io::Write;

use serde_json::{json, Value};

use crate::bincase::{read_bin, split_file};
use crate::pval::pforest;

fn u32le(out: &mut Vec<u8>, v: u32) {
    out.extend_from_slice(&v.to_le_bytes());
}

fn string(out: &mut Vec<u8>, s: &[u8]) {
    u32le(out, s.len() as u32);
    out.extend_from_slice(s);
}

fn jbytes(v: &Value) -> Vec<u8> {
    v.as_array().map(|a| a.iter().map(|x| x.as_u64().unwrap() as u8).collect()).unwrap_or_default()
}

/// big-endian words, interleaved (column-major)
fn interleave(out: &mut Vec<u8>, words: &[Vec<u8>]) {
    if words.is_empty() {
        return;
    }
    let w = words[0].len();
    for j in 0..w {
        for word in words {
            out.push(word[j]);
        }
    }
}

fn zigzag32(x: i32) -> [u8; 4] {
    (((x << 1) ^ (x >> 31)) as u32).to_be_bytes()
}

fn zigzag64(x: i64) -> [u8; 8] {
    (((x << 1) ^ (x >> 63)) as u64).to_be_bytes()
}

fn rot_f32(bits_be: &[u8]) -> Vec<u8> {
    let b = u32::from_be_bytes([bits_be[0], bits_be[1], bits_be[2], bits_be[3]]);
    b.rotate_left(1).to_be_bytes().to_vec()
}

fn f32_array(out: &mut Vec<u8>, vals: &[Vec<u8>]) {
    let words: Vec<Vec<u8>> = vals.iter().map(|v| rot_f32(v)).collect();
    interleave(out, &words);
}

fn i32_array(out: &mut Vec<u8>, vals: &[i32]) {
    let words: Vec<Vec<u8>> = vals.iter().map(|v| zigzag32(*v).to_vec()).collect();
    interleave(out, &words);
}

fn referent_array(out: &mut Vec<u8>, refs: &[i32]) {
    let mut prev = 0i32;
    let mut deltas = Vec::new();
    for r in refs {
        deltas.push(r.wrapping_sub(prev));
        prev = *r;
    }
    i32_array(out, &deltas);
}

fn le_of_be(v: &[u8]) -> Vec<u8> {
    v.iter().rev().copied().collect()
}

/// Encode one column of values (PVal JSON) under the given wire type id. `referent_of` maps forest
/// positions to file referents. Returns None if this encoder does not know the type.
fn encode_values(type_id: u8, vals: &[&Value], referent_of: &dyn Fn(i64) -> i32, sstr_index: &dyn Fn(&[u8]) -> u32, out: &mut Vec<u8>) -> Option<()> {
    match type_id {
        0x01 => {
            for v in vals {
                string(out, &jbytes(&v["v"]));
            }
        }
        0x02 => {
            for v in vals {
                out.push(v["v"].as_u64().unwrap() as u8);
            }
        }
        0x03 => {
            let xs: Vec<i32> = vals.iter().map(|v| i32::from_be_bytes(jbytes(&v["v"]).try_into().unwrap())).collect();
            i32_array(out, &xs);
        }
        0x04 => {
            let xs: Vec<Vec<u8>> = vals.iter().map(|v| jbytes(&v["v"])).collect();
            f32_array(out, &xs);
        }
        0x05 => {
            for v in vals {
                out.extend(le_of_be(&jbytes(&v["v"])));
            }
        }
        0x0e => {
            for c in 0..3 {
                let xs: Vec<Vec<u8>> = vals.iter().map(|v| jbytes(&v["v"][c])).collect();
                f32_array(out, &xs);
            }
        }
        0x10 => {
            for v in vals {
                let rot: Vec<Vec<u8>> = (3..12).map(|k| jbytes(&v["v"][k])).collect();
                let id = basic_rotation_id(&rot);
                if let (Some(id), true) = (id, v["basic_id"].as_bool().unwrap_or(true)) {
                    out.push(id);
                } else {
                    out.push(0);
                    for r in &rot {
                        out.extend(le_of_be(r));
                    }
                }
            }
            for c in 0..3 {
                let xs: Vec<Vec<u8>> = vals.iter().map(|v| jbytes(&v["v"][c])).collect();
                f32_array(out, &xs);
            }
        }
        0x12 => {
            let words: Vec<Vec<u8>> = vals.iter().map(|v| jbytes(&v["v"])).collect();
            interleave(out, &words);
        }
        0x13 => {
            let refs: Vec<i32> = vals.iter().map(|v| referent_of(v["v"].as_i64().unwrap())).collect();
            referent_array(out, &refs);
        }
        0x1a => {
            for c in 0..3 {
                for v in vals {
                    out.push(v["v"][c].as_u64().unwrap() as u8);
                }
            }
        }
        0x1b => {
            let words: Vec<Vec<u8>> = vals
                .iter()
                .map(|v| zigzag64(i64::from_be_bytes(jbytes(&v["v"]).try_into().unwrap())).to_vec())
                .collect();
            interleave(out, &words);
        }
        0x1c => {
            let words: Vec<Vec<u8>> = vals.iter().map(|v| sstr_index(&jbytes(&v["v"])).to_be_bytes().to_vec()).collect();
            interleave(out, &words);
        }
        _ => return None,
    }
    Some(())
}

/// ids of the document's table for exact 0/1/-1 matrices (computed from the same angle table by
/// tools/gen_rotation_table.py; kept here as data)
fn basic_rotation_id(rot: &[Vec<u8>]) -> Option<u8> {
    let code = |b: &Vec<u8>| -> Option<i8> {
        match b.as_slice() {
            [0, 0, 0, 0] => Some(0),
            [63, 128, 0, 0] => Some(1),
            [191, 128, 0, 0] => Some(-1),
            _ => None,
        }
    };
    let m: Option<Vec<i8>> = rot.iter().map(code).collect();
    let m = m?;
    const TABLE: [(u8, [i8; 9]); 24] = [
        (2, [1, 0, 0, 0, 1, 0, 0, 0, 1]), (3, [1, 0, 0, 0, 0, -1, 0, 1, 0]), (5, [1, 0, 0, 0, -1, 0, 0, 0, -1]),
        (6, [1, 0, 0, 0, 0, 1, 0, -1, 0]), (7, [0, 1, 0, 1, 0, 0, 0, 0, -1]), (9, [0, 0, 1, 1, 0, 0, 0, 1, 0]),
        (10, [0, -1, 0, 1, 0, 0, 0, 0, 1]), (12, [0, 0, -1, 1, 0, 0, 0, -1, 0]), (13, [0, 1, 0, 0, 0, 1, 1, 0, 0]),
        (14, [0, 0, -1, 0, 1, 0, 1, 0, 0]), (16, [0, -1, 0, 0, 0, -1, 1, 0, 0]), (17, [0, 0, 1, 0, -1, 0, 1, 0, 0]),
        (20, [-1, 0, 0, 0, 1, 0, 0, 0, -1]), (21, [-1, 0, 0, 0, 0, 1, 0, 1, 0]), (23, [-1, 0, 0, 0, -1, 0, 0, 0, 1]),
        (24, [-1, 0, 0, 0, 0, -1, 0, -1, 0]), (25, [0, 1, 0, -1, 0, 0, 0, 0, 1]), (27, [0, 0, -1, -1, 0, 0, 0, 1, 0]),
        (28, [0, -1, 0, -1, 0, 0, 0, 0, -1]), (30, [0, 0, 1, -1, 0, 0, 0, -1, 0]), (31, [0, 1, 0, 0, 0, -1, -1, 0, 0]),
        (32, [0, 0, 1, 0, 1, 0, -1, 0, 0]), (34, [0, -1, 0, 0, 0, 1, -1, 0, 0]), (35, [0, 0, -1, 0, -1, 0, -1, 0, 0]),
    ];
    TABLE.iter().find(|(_, t)| t.iter().zip(&m).all(|(a, b)| a == b)).map(|(id, _)| *id)
}

fn type_id_of(t: &str) -> Option<u8> {
    Some(match t {
        "String" | "BinaryString" | "ContentId" => 0x01,
        "Bool" => 0x02,
        "Int32" => 0x03,
        "Float32" => 0x04,
        "Float64" => 0x05,
        "Vector3" => 0x0e,
        "CFrame" => 0x10,
        "Enum" => 0x12,
        "Ref" => 0x13,
        "Color3uint8" => 0x1a,
        "Int64" => 0x1b,
        "SharedString" => 0x1c,
        _ => return None,
    })
}

fn chunk(out: &mut Vec<u8>, name: &[u8; 4], data: &[u8], method: &str) {
    out.extend_from_slice(name);
    match method {
        "lz4" => {
            let c = lz4::block::compress(data, None, false).unwrap();
            u32le(out, c.len() as u32);
            u32le(out, data.len() as u32);
            u32le(out, 0);
            out.extend(c);
        }
        "zstd" => {
            let c = zstd::bulk::compress(data, 0).unwrap();
            u32le(out, c.len() as u32);
            u32le(out, data.len() as u32);
            u32le(out, 0);
            out.extend(c);
        }
        _ => {
            u32le(out, 0);
            u32le(out, data.len() as u32);
            u32le(out, 0);
            out.extend_from_slice(data);
        }
    }
}

/// Build the bytes of one abstract foreign file.
/// case: {"forest": PForest-like logical forest, "classes": [{"name","id","service"}],
///        "referents": [r per instance], "chunks": [{"k":"INST","class":i} | {"k":"PROP","class":i,"prop":name,
///        "as": optional narrower type} | {"k":"META"} | {"k":"XTRA"} | {"k":"SSTR"} |
///        {"k":"PROPTRUNC","class":i} | {"k":"PROPUNK","class":i}], "prnt": [instance positions in PRNT order],
///        "methods": [per chunk "none"|"lz4"|"zstd"]}
pub fn build(case: &Value) -> Vec<u8> {
    let insts = case["forest"]["inst"].as_array().unwrap();
    let classes = case["classes"].as_array().unwrap();
    let referents: Vec<i32> = case["referents"].as_array().unwrap().iter().map(|v| v.as_i64().unwrap() as i32).collect();
    let referent_of = |k: i64| -> i32 { if k > 0 { referents[(k - 1) as usize] } else { -1 } };
    // shared strings: distinct values in first-use order
    let mut sstrs: Vec<Vec<u8>> = Vec::new();
    for i in insts {
        for p in i["props"].as_array().unwrap() {
            if p[1]["t"] == "SharedString" {
                let b = jbytes(&p[1]["v"]);
                if !sstrs.contains(&b) {
                    sstrs.push(b);
                }
            }
        }
    }
    let sstr_index = |b: &[u8]| -> u32 { sstrs.iter().position(|s| s.as_slice() == b).unwrap() as u32 };
    let members = |ci: usize| -> Vec<usize> {
        let name = classes[ci]["name"].as_str().unwrap();
        (0..insts.len()).filter(|k| insts[*k]["class"] == name).collect()
    };
    let mut out = Vec::new();
    out.extend_from_slice(b"<roblox!");
    out.extend_from_slice(&[0x89, 0xff, 0x0d, 0x0a, 0x1a, 0x0a]);
    out.extend_from_slice(&0u16.to_le_bytes());
    u32le(&mut out, classes.len() as u32);
    u32le(&mut out, insts.len() as u32);
    out.extend_from_slice(&[0; 8]);
    let methods = case["methods"].as_array().unwrap();
    let mut mi = 0;
    let mut next_method = || -> String {
        let m = methods[mi % methods.len()].as_str().unwrap().to_string();
        mi += 1;
        m
    };
    for ch in case["chunks"].as_array().unwrap() {
        let mut data = Vec::new();
        match ch["k"].as_str().unwrap() {
            "META" => {
                u32le(&mut data, 1);
                string(&mut data, b"ExplicitAutoJoints");
                string(&mut data, b"true");
                chunk(&mut out, b"META", &data, &next_method());
            }
            "XTRA" => {
                data.extend_from_slice(b"some future chunk the reader has never heard of");
                chunk(&mut out, b"XTRA", &data, &next_method());
            }
            "XTRAMAGIC" => {
                data.extend_from_slice(&[0x28, 0xb5, 0x2f, 0xfd]);
                data.extend_from_slice(b" is how this chunk's own data happens to begin");
                chunk(&mut out, b"XTRA", &data, &next_method());
            }
            "SSTR" => {
                u32le(&mut data, 0);
                u32le(&mut data, sstrs.len() as u32);
                for s in &sstrs {
                    data.extend_from_slice(&[0; 16]);
                    string(&mut data, s);
                }
                chunk(&mut out, b"SSTR", &data, &next_method());
            }
            "INST" => {
                let ci = ch["class"].as_u64().unwrap() as usize;
                let c = &classes[ci];
                let ms = members(ci);
                u32le(&mut data, c["id"].as_i64().unwrap() as u32);
                string(&mut data, c["name"].as_str().unwrap().as_bytes());
                let service = c["service"].as_bool().unwrap_or(false);
                data.push(service as u8);
                u32le(&mut data, ms.len() as u32);
                let refs: Vec<i32> = ms.iter().map(|k| referents[*k]).collect();
                referent_array(&mut data, &refs);
                if service {
                    for _ in &ms {
                        data.push(1);
                    }
                }
                chunk(&mut out, b"INST", &data, &next_method());
            }
            "PROP" => {
                let ci = ch["class"].as_u64().unwrap() as usize;
                let pname = ch["prop"].as_str().unwrap();
                let ms = members(ci);
                u32le(&mut data, classes[ci]["id"].as_i64().unwrap() as u32);
                string(&mut data, pname.as_bytes());
                if pname == "Name" {
                    data.push(0x01);
                    for k in &ms {
                        string(&mut data, &jbytes(&insts[*k]["name"]));
                    }
                } else {
                    let vals: Vec<&Value> = ms
                        .iter()
                        .map(|k| {
                            insts[*k]["props"].as_array().unwrap().iter().find(|p| p[0] == pname).map(|p| &p[1]).unwrap()
                        })
                        .collect();
                    // narrower legacy encodings: Int32 for Int64, Float32 for Float64
                    let narrowed: Vec<Value>;
                    let (tid, vals2): (u8, Vec<&Value>) = match ch.get("as").and_then(|a| a.as_str()) {
                        Some("Int32") => {
                            narrowed = vals.iter().map(|v| { let b = jbytes(&v["v"]); json!({"t":"Int32","v": b[4..8].to_vec()}) }).collect();
                            (0x03, narrowed.iter().collect())
                        }
                        Some("Float32") => {
                            narrowed = vals
                                .iter()
                                .map(|v| {
                                    let b = jbytes(&v["v"]);
                                    let x = f64::from_bits(u64::from_be_bytes(b.try_into().unwrap())) as f32;
                                    json!({"t":"Float32","v": x.to_bits().to_be_bytes().to_vec()})
                                })
                                .collect();
                            (0x04, narrowed.iter().collect())
                        }
                        _ => (type_id_of(vals[0]["t"].as_str().unwrap()).expect("foreign encoder: unsupported type"), vals.clone()),
                    };
                    data.push(tid);
                    encode_values(tid, &vals2, &referent_of, &sstr_index, &mut data).expect("foreign encoder: unsupported type");
                }
                chunk(&mut out, b"PROP", &data, &next_method());
            }
            "PROPTRUNC" => {
                let ci = ch["class"].as_u64().unwrap() as usize;
                u32le(&mut data, classes[ci]["id"].as_i64().unwrap() as u32);
                string(&mut data, b"FutureProperty");
                chunk(&mut out, b"PROP", &data, &next_method());
            }
            "PROPUNK" => {
                let ci = ch["class"].as_u64().unwrap() as usize;
                u32le(&mut data, classes[ci]["id"].as_i64().unwrap() as u32);
                string(&mut data, b"FutureTypedProperty");
                data.push(0x3f);
                data.extend_from_slice(&[1, 2, 3, 4, 5, 6, 7]);
                chunk(&mut out, b"PROP", &data, &next_method());
            }
            other => panic!("unknown chunk kind {}", other),
        }
    }
    // PRNT
    let mut data = vec![0u8];
    let order: Vec<usize> = case["prnt"].as_array().unwrap().iter().map(|v| v.as_u64().unwrap() as usize - 1).collect();
    u32le(&mut data, order.len() as u32);
    let kids: Vec<i32> = order.iter().map(|k| referents[*k]).collect();
    let pars: Vec<i32> = order.iter().map(|k| referent_of(insts[*k]["parent"].as_i64().unwrap())).collect();
    referent_array(&mut data, &kids);
    referent_array(&mut data, &pars);
    chunk(&mut out, b"PRNT", &data, &next_method());
    chunk(&mut out, b"END\0", b"</roblox>", "none");
    out
}

/// ndjson of abstract cases in, events out: the file (split for BinaryWire), the forest the real
/// reader produced.
pub fn run(input: &mut dyn std::io::BufRead, out: &mut dyn Write) {
    std::panic::set_hook(Box::new(|_| {}));
    let mut text = String::new();
    input.read_to_string(&mut text).unwrap();
    for line in text.lines() {
        if line.trim().is_empty() {
            continue;
        }
        let case: Value = serde_json::from_str(line).unwrap();
        let data = build(&case);
        let enrich = |f: &Value| -> Value {
            let mut f = f.clone();
            for i in f["inst"].as_array_mut().unwrap() {
                i["class_b"] = crate::pval::bytes(i["class"].as_str().unwrap().as_bytes());
                for p in i["props"].as_array_mut().unwrap() {
                    let nb = crate::pval::bytes(p[0].as_str().unwrap().as_bytes());
                    p.as_array_mut().unwrap().push(nb);
                }
            }
            f
        };
        let mut ev = json!({"ep": case["ep"], "op": "foreign_bin", "logical": enrich(&case["forest"]), "expect": enrich(&case["expect"]),
                            "choices": {"classes": case["classes"], "referents": case["referents"], "chunks": case["chunks"],
                                        "prnt": case["prnt"], "methods": case["methods"]}});
        match split_file(&data) {
            Ok(f) => ev["file"] = f,
            Err(e) => ev["file"] = json!({"broken": e}),
        }
        match read_bin(&data) {
            Ok(dom) => {
                ev["read"] = json!("ok");
                let kids = dom.root().children().to_vec();
                ev["after"] = pforest(&dom, &kids);
            }
            Err(e) => {
                ev["read"] = json!(crate::bincase::outcome_class(&e));
                ev["read_detail"] = json!(e);
            }
        }
        serde_json::to_writer(&mut *out, &ev).unwrap();
        out.write_all(b"\n").unwrap();
    }
}

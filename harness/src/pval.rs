//! Projection of real values and DOMs into the representation the TLA+ specs use:
//! every scalar is a byte vector (big-endian bit pattern), so TLC can decide bit-identity and
//! evaluate wire layouts although it has neither floats nor 64-bit integers.

use std::collections::HashMap;

use rbx_dom_weak::types::{
    Attributes, CFrame, Content, ContentType, PhysicalProperties, Ref, Variant, Vector3,
};
use rbx_dom_weak::WeakDom;
use serde_json::{json, Value};

pub fn bytes(b: &[u8]) -> Value {
    Value::Array(b.iter().map(|x| json!(*x)).collect())
}

pub fn f32v(x: f32) -> Value {
    bytes(&x.to_bits().to_be_bytes())
}

pub fn f64v(x: f64) -> Value {
    bytes(&x.to_bits().to_be_bytes())
}

pub fn i32v(x: i32) -> Value {
    bytes(&x.to_be_bytes())
}

fn vec3(v: &Vector3) -> Vec<Value> {
    vec![f32v(v.x), f32v(v.y), f32v(v.z)]
}

fn cframe(cf: &CFrame) -> Value {
    let mut v = vec3(&cf.position);
    v.extend(vec3(&cf.orientation.x));
    v.extend(vec3(&cf.orientation.y));
    v.extend(vec3(&cf.orientation.z));
    Value::Array(v)
}

/// How a Ref value is shown: index in the written forest (1-based), 0 = null, -1 = anything else.
pub type RefMap = HashMap<Ref, i64>;

fn refv(r: Ref, refs: &RefMap) -> Value {
    if r.is_none() {
        json!(0)
    } else {
        json!(refs.get(&r).copied().unwrap_or(-1))
    }
}

pub fn attributes(a: &Attributes, refs: &RefMap) -> Value {
    let mut entries: Vec<(&String, &Variant)> = a.iter().collect();
    entries.sort_by(|x, y| x.0.cmp(y.0));
    Value::Array(
        entries
            .into_iter()
            .map(|(k, v)| json!([bytes(k.as_bytes()), pval(v, refs)]))
            .collect(),
    )
}

pub fn type_name(v: &Variant) -> String {
    format!("{:?}", v.ty())
}

pub fn pval(v: &Variant, refs: &RefMap) -> Value {
    let payload = match v {
        Variant::Axes(x) => json!(x.bits()),
        Variant::Faces(x) => json!(x.bits()),
        Variant::BinaryString(x) => bytes(x.as_ref()),
        Variant::String(x) => bytes(x.as_bytes()),
        Variant::ContentId(x) => bytes(x.as_str().as_bytes()),
        Variant::SharedString(x) => bytes(x.data()),
        Variant::Bool(x) => json!(*x as i32),
        Variant::BrickColor(x) => json!(*x as u16),
        Variant::CFrame(x) => cframe(x),
        Variant::OptionalCFrame(x) => match x {
            Some(cf) => cframe(cf),
            None => json!([]),
        },
        Variant::Color3(c) => json!([f32v(c.r), f32v(c.g), f32v(c.b)]),
        Variant::Color3uint8(c) => json!([c.r, c.g, c.b]),
        Variant::ColorSequence(s) => Value::Array(
            s.keypoints
                .iter()
                .map(|k| json!([f32v(k.time), f32v(k.color.r), f32v(k.color.g), f32v(k.color.b)]))
                .collect(),
        ),
        Variant::NumberSequence(s) => Value::Array(
            s.keypoints
                .iter()
                .map(|k| json!([f32v(k.time), f32v(k.value), f32v(k.envelope)]))
                .collect(),
        ),
        Variant::Enum(e) => bytes(&e.to_u32().to_be_bytes()),
        Variant::EnumItem(e) => json!([bytes(e.ty.as_bytes()), bytes(&e.value.to_be_bytes())]),
        Variant::Float32(x) => f32v(*x),
        Variant::Float64(x) => f64v(*x),
        Variant::Int32(x) => i32v(*x),
        Variant::Int64(x) => bytes(&x.to_be_bytes()),
        Variant::NumberRange(r) => json!([f32v(r.min), f32v(r.max)]),
        Variant::PhysicalProperties(p) => match p {
            PhysicalProperties::Default => json!([]),
            PhysicalProperties::Custom(c) => json!([
                f32v(c.density),
                f32v(c.friction),
                f32v(c.elasticity),
                f32v(c.friction_weight),
                f32v(c.elasticity_weight)
            ]),
        },
        Variant::Ray(r) => {
            let mut v = vec3(&r.origin);
            v.extend(vec3(&r.direction));
            Value::Array(v)
        }
        Variant::Rect(r) => json!([f32v(r.min.x), f32v(r.min.y), f32v(r.max.x), f32v(r.max.y)]),
        Variant::Ref(r) => refv(*r, refs),
        Variant::Region3(r) => {
            let mut v = vec3(&r.min);
            v.extend(vec3(&r.max));
            Value::Array(v)
        }
        Variant::Region3int16(r) => json!([r.min.x, r.min.y, r.min.z, r.max.x, r.max.y, r.max.z]),
        Variant::UDim(u) => json!([f32v(u.scale), i32v(u.offset)]),
        Variant::UDim2(u) => json!([f32v(u.x.scale), i32v(u.x.offset), f32v(u.y.scale), i32v(u.y.offset)]),
        Variant::Vector2(v) => json!([f32v(v.x), f32v(v.y)]),
        Variant::Vector2int16(v) => json!([v.x, v.y]),
        Variant::Vector3(v) => Value::Array(vec3(v)),
        Variant::Vector3int16(v) => json!([v.x, v.y, v.z]),
        Variant::Tags(t) => Value::Array(t.iter().map(|s| bytes(s.as_bytes())).collect()),
        Variant::Attributes(a) => attributes(a, refs),
        Variant::Font(f) => json!([
            bytes(f.family.as_bytes()),
            f.weight.as_u16(),
            f.style.as_u8(),
            f.cached_face_id.is_some() as i32,
            bytes(f.cached_face_id.as_deref().unwrap_or("").as_bytes())
        ]),
        Variant::UniqueId(u) => json!([
            bytes(&u.index().to_be_bytes()),
            bytes(&u.time().to_be_bytes()),
            bytes(&u.random().to_be_bytes())
        ]),
        Variant::MaterialColors(m) => bytes(&m.encode()),
        Variant::SecurityCapabilities(s) => bytes(&s.bits().to_be_bytes()),
        Variant::Content(c) => content(c, refs),
        _ => json!("unsupported"),
    };
    json!({"t": type_name(v), "v": payload})
}

fn content(c: &Content, refs: &RefMap) -> Value {
    match c.value() {
        ContentType::None => json!([0]),
        ContentType::Uri(u) => json!([1, bytes(u.as_bytes())]),
        ContentType::Object(r) => json!([2, refv(*r, refs)]),
        _ => json!([9]),
    }
}

/// Canonical numbering of a forest: pre-order from the given roots, children in order.
pub fn number_forest(dom: &WeakDom, roots: &[Ref]) -> (Vec<Ref>, RefMap) {
    let mut order = Vec::new();
    let mut map = RefMap::new();
    let mut stack: Vec<Ref> = roots.iter().rev().copied().collect();
    while let Some(r) = stack.pop() {
        if map.contains_key(&r) {
            continue;
        }
        if let Some(inst) = dom.get_by_ref(r) {
            order.push(r);
            map.insert(r, order.len() as i64);
            for c in inst.children().iter().rev() {
                stack.push(*c);
            }
        }
        if order.len() > 200_000 {
            break;
        }
    }
    (order, map)
}

/// PForest: the logical content of the forest below `roots`, up to referent renaming.
pub fn pforest(dom: &WeakDom, roots: &[Ref]) -> Value {
    let (order, map) = number_forest(dom, roots);
    let mut insts = Vec::new();
    for r in &order {
        let inst = dom.get_by_ref(*r).unwrap();
        let mut props: Vec<(String, Value)> = inst
            .properties
            .iter()
            .map(|(k, v)| (k.to_string(), pval(v, &map)))
            .collect();
        props.sort_by(|a, b| a.0.cmp(&b.0));
        let parent = if roots.contains(r) { 0 } else { map.get(&inst.parent()).copied().unwrap_or(-1) };
        insts.push(json!({
            "class": inst.class.as_str(),
            "class_b": bytes(inst.class.as_bytes()),
            "name": bytes(inst.name.as_bytes()),
            "parent": parent,
            "kids": inst.children().iter().map(|c| map.get(c).copied().unwrap_or(-1)).collect::<Vec<_>>(),
            "props": props.into_iter().map(|(k, v)| { let kb = bytes(k.as_bytes()); json!([k, v, kb]) }).collect::<Vec<_>>(),
        }));
    }
    json!({"roots": roots.iter().map(|r| map.get(r).copied().unwrap_or(-1)).collect::<Vec<_>>(), "inst": insts})
}

/// Fingerprint of the projection of a forest (for forests too large to be logged in full).
pub fn forest_fp(dom: &WeakDom, roots: &[Ref]) -> String {
    blake3::hash(pforest(dom, roots).to_string().as_bytes()).to_hex().to_string()
}

//! C17: serde / text encodings of the value types, logged for TextForms.tla (TextTrace).

use std::io::Write;
use std::panic::{catch_unwind, AssertUnwindSafe};
use std::str::FromStr;

use rand::rngs::StdRng;
use rand::{Rng, SeedableRng};
use rbx_dom_weak::types::*;
use serde_json::{json, Value};

use crate::gen;
use crate::pval::{bytes, pval, RefMap};

fn emit(out: &mut dyn Write, ev: Value) {
    serde_json::to_writer(&mut *out, &ev).unwrap();
    out.write_all(b"\n").unwrap();
}

/// a JSON tree in a form TLC can load (no floats, no nulls): numbers as their f64 bit patterns
pub fn jtree(v: &Value) -> Value {
    match v {
        Value::Null => json!({"k": "null"}),
        Value::Bool(b) => json!({"k": "bool", "v": *b as i32}),
        Value::Number(n) => json!({"k": "num", "v": bytes(&n.as_f64().unwrap_or(f64::NAN).to_bits().to_be_bytes())}),
        Value::String(s) => json!({"k": "str", "v": bytes(s.as_bytes())}),
        Value::Array(a) => json!({"k": "arr", "v": a.iter().map(jtree).collect::<Vec<_>>()}),
        Value::Object(o) => {
            let mut keys: Vec<&String> = o.keys().collect();
            keys.sort();
            json!({"k": "obj", "v": keys.iter().map(|k| json!([bytes(k.as_bytes()), jtree(&o[*k])])).collect::<Vec<_>>()})
        }
    }
}

fn has_nonfinite(v: &Variant) -> bool {
    let s = format!("{:?}", v);
    s.contains("NaN") || s.contains("inf")
}

fn attempt<T>(f: impl FnOnce() -> Result<T, String>) -> Result<T, String> {
    match catch_unwind(AssertUnwindSafe(f)) {
        Ok(r) => r,
        Err(_) => Err("panic".to_string()),
    }
}

pub fn run(seed: u64, per_type: usize, out: &mut dyn Write) {
    std::panic::set_hook(Box::new(|_| {}));
    let mut rng = StdRng::seed_from_u64(seed);
    let refs = RefMap::new();
    let mut all_types = gen::BINARY_TYPES.to_vec();
    all_types.push(VariantType::Vector2int16);
    // ---- every Variant through the serde entry points -----------------------------------------
    // long byte payloads are shown by length and digest (the judge compares what it is shown)
    let shown = |x: &Variant| -> Value {
        let long = |t: &str, b: &[u8]| json!({"t": t, "len": b.len(), "digest": blake3::hash(b).to_hex().to_string()});
        match x {
            Variant::Ref(r) => json!({"t": "Ref", "v": bytes(r.to_string().as_bytes())}),
            Variant::BinaryString(b) if { let r: &[u8] = b.as_ref(); r.len() > 600 } => long("BinaryString", b.as_ref()),
            Variant::SharedString(b) if b.data().len() > 600 => long("SharedString", b.data()),
            Variant::String(b) if b.len() > 600 => long("String", b.as_bytes()),
            Variant::ContentId(b) if b.as_str().len() > 600 => long("ContentId", b.as_str().as_bytes()),
            other => pval(other, &refs),
        }
    };
    let mut exercise = |label: String, i: usize, v: Variant, out: &mut dyn Write| {
        let before = shown(&v);
        let finite = !has_nonfinite(&v);
        let mut entries: Vec<(&str, Result<Variant, String>)> = Vec::new();
        if finite {
            let text = attempt(|| serde_json::to_string(&v).map_err(|e| e.to_string()));
            match &text {
                Ok(t) => {
                    entries.push(("json-str", attempt(|| serde_json::from_str::<Variant>(t).map_err(|e| e.to_string()))));
                    entries.push(("json-slice", attempt(|| serde_json::from_slice::<Variant>(t.as_bytes()).map_err(|e| e.to_string()))));
                    entries.push(("json-reader", attempt(|| serde_json::from_reader::<_, Variant>(t.as_bytes()).map_err(|e| e.to_string()))));
                }
                Err(e) => entries.push(("json-str", Err(format!("serialize: {}", e)))),
            }
            entries.push(("json-value", attempt(|| {
                let val = serde_json::to_value(&v).map_err(|e| e.to_string())?;
                serde_json::from_value::<Variant>(val).map_err(|e| e.to_string())
            })));
        }
        entries.push(("bincode", attempt(|| {
            let b = bincode::serialize(&v).map_err(|e| e.to_string())?;
            bincode::deserialize::<Variant>(&b).map_err(|e| e.to_string())
        })));
        entries.push(("msgpack", attempt(|| {
            let b = rmp_serde::to_vec(&v).map_err(|e| e.to_string())?;
            rmp_serde::from_slice::<Variant>(&b).map_err(|e| e.to_string())
        })));
        for (entry, r) in entries {
            let mut ev = json!({"ep": format!("serde:{}:{}:{}", label, i, entry), "op": "serde", "variant": label,
                                "entry": entry, "value": before});
            match r {
                Ok(back) => {
                    ev["outcome"] = json!("ok");
                    ev["decoded"] = shown(&back);
                }
                Err(e) => {
                    ev["outcome"] = json!("err");
                    ev["detail"] = json!(e);
                }
            }
            emit(out, ev);
        }
    };
    for ty in &all_types {
        for i in 0..per_type {
            if let Some(v) = gen::value_of(*ty, &mut rng, &[], true) {
                exercise(format!("{:?}", ty), i, v, out);
            }
        }
    }
    // byte-string-like types at every length around the powers of two and their 3/4 points, up to 70 000
    let mut lengths: Vec<usize> = Vec::new();
    for k in 0..=16u32 {
        let p = 1usize << k;
        for l in [p.saturating_sub(1), p, p + 1, p * 3 / 4, p * 3 / 4 + 1, p * 3 / 2, p * 3 / 2 + 1] {
            if l <= 70_000 && !lengths.contains(&l) {
                lengths.push(l);
            }
        }
    }
    lengths.sort();
    for (i, len) in lengths.iter().enumerate() {
        let data: Vec<u8> = (0..*len).map(|j| (j * 31 % 251) as u8).collect();
        let text: String = (0..*len).map(|j| (b'a' + (j % 26) as u8) as char).collect();
        exercise("BinaryString".into(), 1000 + i, Variant::BinaryString(data.clone().into()), out);
        exercise("SharedString".into(), 1000 + i, Variant::SharedString(rbx_dom_weak::types::SharedString::new(data)), out);
        exercise("String".into(), 1000 + i, Variant::String(text.clone()), out);
        exercise("ContentId".into(), 1000 + i, Variant::ContentId(text.into()), out);
    }
    // ---- text forms: UniqueId and Ref --------------------------------------------------------
    let mut uids = vec![
        UniqueId::new(0, 0, 0), UniqueId::new(u32::MAX, u32::MAX, i64::MAX), UniqueId::new(1, 2, -1), UniqueId::new(7, 9, i64::MIN),
        UniqueId::new(0x12345678, 0x9abcdef0, 0x1234_5678_9abc_def0),
    ];
    for _ in 0..per_type * 4 {
        uids.push(UniqueId::new(rng.gen(), rng.gen(), rng.gen()));
    }
    for (i, u) in uids.iter().enumerate() {
        let text = u.to_string();
        let back = attempt(|| UniqueId::from_str(&text).map_err(|e| e.to_string()));
        let mut ev = json!({"ep": format!("text:uid:{}", i), "op": "text", "kind": "UniqueId", "value": pval(&Variant::UniqueId(*u), &refs)["v"],
                            "text": bytes(text.as_bytes())});
        match back {
            Ok(b) => {
                ev["outcome"] = json!("ok");
                ev["parsed"] = pval(&Variant::UniqueId(b), &refs)["v"].clone();
            }
            Err(e) => {
                ev["outcome"] = json!("err");
                ev["detail"] = json!(e);
            }
        }
        emit(out, ev);
    }
    for i in 0..per_type * 4 {
        let r = if i == 0 { Ref::none() } else { Ref::new() };
        let text = r.to_string();
        let back = attempt(|| Ref::from_str(&text).map_err(|e| e.to_string()));
        emit(out, json!({"ep": format!("text:ref:{}", i), "op": "text", "kind": "Ref", "value": bytes(text.as_bytes()), "text": bytes(text.as_bytes()),
                         "outcome": if back.is_ok() { "ok" } else { "err" },
                         "parsed": back.map(|b| bytes(b.to_string().as_bytes())).unwrap_or(json!([])), "same": back_eq(&r, &text)}));
    }
    // ---- BrickColor: every u16 number ---------------------------------------------------------
    for n in 0..=u16::MAX {
        if let Some(b) = BrickColor::from_number(n) {
            let name = b.to_string();
            let from_name = BrickColor::from_name(&name).map(|x| x as u16 as i64).unwrap_or(-1);
            let name_back = BrickColor::from_name(&name).map(|x| x.to_string()).unwrap_or_default();
            emit(out, json!({"ep": format!("brick:{}", n), "op": "brick", "number": n, "as_number": b as u16, "name": bytes(name.as_bytes()),
                             "from_name": from_name, "name_back": bytes(name_back.as_bytes())}));
        }
    }
    // ---- Faces / Axes: every bit set, through the JSON name list -------------------------------
    for bits in 0..=255u16 {
        let b = bits as u8;
        if let Some(f) = Faces::from_bits(b) {
            let names = serde_json::to_value(f).unwrap();
            let back: Result<Faces, String> = attempt(|| serde_json::from_str::<Faces>(&names.to_string()).map_err(|e| e.to_string()));
            let back_value: Result<Faces, String> = attempt(|| serde_json::from_value::<Faces>(names.clone()).map_err(|e| e.to_string()));
            emit(out, json!({"ep": format!("faces:{}", b), "op": "bitset", "kind": "Faces", "bits": b, "names": jtree(&names),
                             "back_str": back.map(|x| x.bits() as i64).unwrap_or(-1), "back_value": back_value.map(|x| x.bits() as i64).unwrap_or(-1)}));
        } else if b < 64 {
            emit(out, json!({"ep": format!("faces:{}", b), "op": "bitset", "kind": "Faces", "bits": b, "names": jtree(&json!([])), "back_str": -2, "back_value": -2}));
        }
        if let Some(a) = Axes::from_bits(b) {
            let names = serde_json::to_value(a).unwrap();
            let back: Result<Axes, String> = attempt(|| serde_json::from_str::<Axes>(&names.to_string()).map_err(|e| e.to_string()));
            let back_value: Result<Axes, String> = attempt(|| serde_json::from_value::<Axes>(names.clone()).map_err(|e| e.to_string()));
            emit(out, json!({"ep": format!("axes:{}", b), "op": "bitset", "kind": "Axes", "bits": b, "names": jtree(&names),
                             "back_str": back.map(|x| x.bits() as i64).unwrap_or(-1), "back_value": back_value.map(|x| x.bits() as i64).unwrap_or(-1)}));
        }
    }
    // ---- Tags / MaterialColors blobs ----------------------------------------------------------
    for i in 0..per_type * 2 {
        let t = gen::tags_any(&mut rng);
        let enc = t.encode();
        let dec = Tags::decode(&enc);
        emit(out, json!({"ep": format!("tags:{}", i), "op": "blob", "kind": "Tags", "value": pval(&Variant::Tags(t.clone()), &refs)["v"], "encoded": bytes(&enc),
                         "decoded": dec.map(|d| pval(&Variant::Tags(d), &refs)["v"].clone()).unwrap_or(json!("err"))}));
        if let Some(Variant::MaterialColors(m)) = gen::value_of(VariantType::MaterialColors, &mut rng, &[], true) {
            let enc = m.encode();
            let dec = MaterialColors::decode(&enc);
            emit(out, json!({"ep": format!("matcol:{}", i), "op": "blob", "kind": "MaterialColors", "value": bytes(&enc), "encoded": bytes(&enc),
                             "decoded": dec.map(|d| bytes(&d.encode())).unwrap_or(json!("err"))}));
        }
    }
    // MaterialColors blobs as such (69 bytes: 6 unused, then 21 colours): all zero - every colour black -, all 0xff, a
    // ramp, and one black entry at each of the 21 positions; decode, encode again, same bytes
    {
        let mut blobs: Vec<Vec<u8>> = vec![vec![0u8; 69], vec![0xffu8; 69], (0..69u8).map(|i| i.wrapping_mul(37).wrapping_add(5)).collect()];
        for k in 0..21 {
            let mut b: Vec<u8> = (0..69u8).map(|i| 200u8.wrapping_sub(i)).collect();
            for j in 0..6 {
                b[j] = 0;
            }
            for j in 0..3 {
                b[6 + 3 * k + j] = 0;
            }
            blobs.push(b);
        }
        for (i, blob) in blobs.into_iter().enumerate() {
            let mut canon = blob.clone();
            for j in 0..6 {
                canon[j] = 0; // the six leading bytes are not part of the value
            }
            let dec = MaterialColors::decode(&blob);
            emit(out, json!({"ep": format!("matcolblob:{}", i), "op": "blob", "kind": "MaterialColors", "value": bytes(&canon), "encoded": bytes(&blob),
                             "decoded": dec.map(|d| bytes(&d.encode())).unwrap_or(json!("err"))}));
        }
    }
    // ---- the Lua wire contract: rbx_dom_lua/src/allValues.json ---------------------------------
    let text = std::fs::read_to_string("/repo/rbx_dom_lua/src/allValues.json").unwrap_or_default();
    if let Ok(Value::Object(all)) = serde_json::from_str::<Value>(&text) {
        for (name, sample) in all {
            let stated = sample["ty"].as_str().unwrap_or("").to_string();
            let original = sample["value"].clone();
            let decoded = attempt(|| serde_json::from_value::<Variant>(original.clone()).map_err(|e| e.to_string()));
            let mut ev = json!({"ep": format!("lua:{}", name), "op": "lua", "sample": name, "stated_type": stated, "json_in": jtree(&original)});
            match decoded {
                Ok(v) => {
                    ev["outcome"] = json!("ok");
                    ev["decoded_type"] = json!(format!("{:?}", v.ty()));
                    match serde_json::to_value(&v) {
                        Ok(o) => ev["json_out"] = jtree(&o),
                        Err(e) => ev["json_out"] = json!({"k": "err", "v": e.to_string()}),
                    }
                }
                Err(e) => {
                    ev["outcome"] = json!("err");
                    ev["detail"] = json!(e);
                }
            }
            emit(out, ev);
        }
    }
}

fn back_eq(r: &Ref, text: &str) -> i32 {
    match Ref::from_str(text) {
        Ok(b) => (b == *r) as i32,
        Err(_) => 0,
    }
}

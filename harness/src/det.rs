//! C07: the same logical tree built in different ways / processes must serialize to identical bytes,
//! and load/save must be a fixed point after the first save.

use std::io::Write;

use rand::rngs::StdRng;
use rand::seq::SliceRandom;
use rand::{Rng, SeedableRng};
use rbx_binary::CompressionType;
use rbx_dom_weak::types::{Ref, Variant};
use rbx_dom_weak::{InstanceBuilder, WeakDom};
use serde_json::{json, Value};

use crate::bincase::{read_bin, write_bin};
use crate::gen;
use crate::pval::pforest;
use crate::xmlcase::{read_xml, write_xml, xml_types};

fn digest(b: &[u8]) -> String {
    blake3::hash(b).to_hex().to_string()
}

struct Node {
    class: String,
    name: String,
    parent: usize, // index into nodes, usize::MAX for top level
    props: Vec<(String, Variant)>,
    ref_targets: Vec<(String, Option<usize>)>, // Ref properties by logical target
}

/// The logical forest of case `i`: a function of (seed, i) only - identical in every process.
fn logical(seed: u64, i: usize) -> Vec<Node> {
    let db = rbx_reflection_database::get();
    let known = gen::known_props(db);
    let mut rng = StdRng::seed_from_u64(seed.wrapping_mul(1_000_003).wrapping_add(i as u64));
    // every 20th case is a big one: hundreds of instances of a few unknown classes, dozens of SharedStrings
    if i % 20 == 19 {
        // (and every 100th a very big one: more than 1024 instances of one class, more than 4096 in all)
        let n = if i % 100 == 99 { rng.gen_range(4200..5200) } else { rng.gen_range(180..320) };
        let mut nodes: Vec<Node> = Vec::new();
        for k in 0..n {
            let parent = if k == 0 || rng.gen_bool(0.4) { usize::MAX } else { rng.gen_range(0..k) };
            let mut props = vec![("Number".to_string(), Variant::Int32(k as i32 * 257 - 9))];
            if k % 3 == 0 {
                props.push(("Blob".to_string(), Variant::SharedString(rbx_dom_weak::types::SharedString::new(format!("blob {}", k % 61).into_bytes()))));
            }
            let ref_targets = if k % 4 == 0 { vec![("Link".to_string(), Some(rng.gen_range(0..n)))] } else { Vec::new() };
            nodes.push(Node { class: format!("VerifDetBig{}", k % 5), name: format!("B{}", k), parent, props, ref_targets });
        }
        return nodes;
    }
    let n = rng.gen_range(1..8);
    let mut nodes: Vec<Node> = Vec::new();
    let types: Vec<_> = xml_types().into_iter().filter(|t| gen::BINARY_TYPES.contains(t)).collect();
    for k in 0..n {
        // instances of a class the database does not know, carrying several SharedString / string /
        // Ref properties at once: whatever order a hash map yields them in must not reach the output
        if rng.gen_bool(0.35) {
            let parent = if k == 0 || rng.gen_bool(0.3) { usize::MAX } else { rng.gen_range(0..k) };
            let mut props = Vec::new();
            let mut ref_targets = Vec::new();
            for j in 0..rng.gen_range(2..7) {
                let payload: Vec<u8> = (0..rng.gen_range(1..12)).map(|_| rng.gen()).collect();
                props.push((format!("Shared{}", j), Variant::SharedString(rbx_dom_weak::types::SharedString::new(payload))));
            }
            for j in 0..rng.gen_range(0..3) {
                props.push((format!("Text{}", j), Variant::String(format!("t{}", rng.gen::<u16>()))));
                ref_targets.push((format!("Link{}", j), if rng.gen_bool(0.2) { None } else { Some(rng.gen_range(0..n)) }));
            }
            nodes.push(Node { class: "VerifDetUnknown".to_string(), name: format!("N{}", k), parent, props, ref_targets });
            continue;
        }
        let class = if rng.gen_bool(0.3) { "Folder".to_string() } else { known[rng.gen_range(0..known.len())].class.clone() };
        let parent = if k == 0 || rng.gen_bool(0.3) { usize::MAX } else { rng.gen_range(0..k) };
        let mut props = Vec::new();
        let mut ref_targets = Vec::new();
        let mine: Vec<&gen::KnownProp> = known.iter().filter(|p| p.class == class || gen::is_superclass(&p.class, &class)).filter(|p| types.contains(&p.ty)).collect();
        let mut used: Vec<String> = Vec::new();
        for _ in 0..rng.gen_range(0..5) {
            if mine.is_empty() {
                break;
            }
            let p = mine[rng.gen_range(0..mine.len())];
            if used.contains(&p.canon) || ["Name", "UniqueId", "Parent"].contains(&p.name.as_str()) {
                continue;
            }
            used.push(p.canon.clone());
            if p.ty == rbx_dom_weak::types::VariantType::Ref {
                ref_targets.push((p.name.clone(), if rng.gen_bool(0.2) { None } else { Some(rng.gen_range(0..n)) }));
            } else if let Some(v) = gen::value_of(p.ty, &mut rng, &[], true) {
                props.push((p.name.clone(), v));
            }
        }
        nodes.push(Node { class, name: format!("N{}", k), parent, props, ref_targets });
    }
    // some instances carry an explicit UniqueId (distinct within the forest, so no construction makes the
    // DOM regenerate one): it must survive every construction history unchanged
    for (k, node) in nodes.iter_mut().enumerate() {
        if rng.gen_bool(0.35) {
            let id = rbx_dom_weak::types::UniqueId::new(k as u32 + 1, 5000 + i as u32, rng.gen_range(1..i64::MAX));
            node.props.push(("UniqueId".to_string(), Variant::UniqueId(id)));
        }
    }
    nodes
}

/// Build the DOM for a logical forest in a way that depends on `variant`.
fn construct(nodes: &[Node], variant: u64, case: usize) -> (WeakDom, Vec<Ref>) {
    let mut rng = StdRng::seed_from_u64(variant.wrapping_mul(7919).wrapping_add(case as u64));
    let mut dom = WeakDom::new(InstanceBuilder::new("DataModel"));
    let root = dom.root_ref();
    let mut refs: Vec<Ref> = vec![Ref::none(); nodes.len()];
    let make = |k: usize, rng: &mut StdRng| -> InstanceBuilder {
        let mut props = nodes[k].props.clone();
        props.shuffle(rng); // property insertion order
        let mut b = InstanceBuilder::new(nodes[k].class.as_str()).with_name(nodes[k].name.clone());
        for (n, v) in props {
            b.add_property(n.as_str(), v);
        }
        b
    };
    match variant % 4 {
        0 => {
            // one insert per instance, parents first, in index order
            for k in 0..nodes.len() {
                let p = if nodes[k].parent == usize::MAX { root } else { refs[nodes[k].parent] };
                refs[k] = dom.insert(p, make(k, &mut rng));
            }
        }
        1 => {
            // every instance first inserted under a scratch holder, then moved to its place with transfer_within in
            // an order that keeps sibling order.  Noise instances come and go on the way: one destroyed right after
            // its neighbour was made, one sitting FIRST in every child list (the root's too) until the very end, so
            // that each list loses its first entry while later siblings are present
            let root_noise = dom.insert(root, InstanceBuilder::new("Part"));
            let holder = dom.insert(root, InstanceBuilder::new("Folder").with_name("scratch"));
            let mut order: Vec<usize> = (0..nodes.len()).collect();
            order.shuffle(&mut rng);
            let mut first_noise = vec![root_noise];
            for k in order {
                let noise = dom.insert(holder, InstanceBuilder::new("Part"));
                refs[k] = dom.insert(holder, make(k, &mut rng));
                first_noise.push(dom.insert(refs[k], InstanceBuilder::new("Part")));
                dom.destroy(noise);
            }
            for k in 0..nodes.len() {
                let p = if nodes[k].parent == usize::MAX { root } else { refs[nodes[k].parent] };
                dom.transfer_within(refs[k], p);
            }
            dom.destroy(holder);
            for n in first_noise {
                dom.destroy(n);
            }
        }
        3 => {
            // built in place, then every top-level subtree is moved to another DOM and back again
            for k in 0..nodes.len() {
                let p = if nodes[k].parent == usize::MAX { root } else { refs[nodes[k].parent] };
                refs[k] = dom.insert(p, make(k, &mut rng));
            }
            let mut other = WeakDom::new(InstanceBuilder::new("Folder"));
            let oroot = other.root_ref();
            let tops: Vec<Ref> = dom.root().children().to_vec();
            for t in &tops {
                dom.transfer(*t, &mut other, oroot);
            }
            for t in &tops {
                other.transfer(*t, &mut dom, root);
            }
        }
        _ => {
            // built in another DOM, then transferred / cloned across
            let mut other = WeakDom::new(InstanceBuilder::new("Folder"));
            let oroot = other.root_ref();
            let mut orefs: Vec<Ref> = vec![Ref::none(); nodes.len()];
            for k in 0..nodes.len() {
                let p = if nodes[k].parent == usize::MAX { oroot } else { orefs[nodes[k].parent] };
                orefs[k] = other.insert(p, make(k, &mut rng));
            }
            for k in 0..nodes.len() {
                if nodes[k].parent == usize::MAX {
                    other.transfer(orefs[k], &mut dom, root);
                }
            }
            refs = orefs;
        }
    }
    // Ref properties by logical target
    for k in 0..nodes.len() {
        for (n, t) in &nodes[k].ref_targets {
            let v = t.map(|t| refs[t]).unwrap_or(Ref::none());
            dom.get_by_ref_mut(refs[k]).unwrap().properties.insert(n.as_str().into(), Variant::Ref(v));
        }
    }
    let tops: Vec<Ref> = (0..nodes.len()).filter(|k| nodes[*k].parent == usize::MAX).map(|k| refs[k]).collect();
    (dom, tops)
}

pub fn run(seed: u64, count: usize, variant: u64, out: &mut dyn Write) {
    std::panic::set_hook(Box::new(|_| {}));
    for i in 0..count {
        let nodes = logical(seed, i);
        let (dom, tops) = construct(&nodes, variant, i);
        let mut ev = json!({"ep": format!("det:{}:{}", seed, i), "op": "det_case", "case": i, "variant": variant,
                            "pid": std::process::id(), "forest": pforest(&dom, &tops), "out": {}, "resave": {}});
        let mut outputs: Vec<(String, Result<Vec<u8>, String>)> = Vec::new();
        for (name, c) in [("bin_none", CompressionType::None), ("bin_lz4", CompressionType::Lz4), ("bin_zstd", CompressionType::Zstd)] {
            outputs.push((name.to_string(), write_bin(&dom, &tops, c)));
        }
        outputs.push(("xml".to_string(), write_xml(&dom, &tops, "WriteUnknown")));
        for (name, r) in outputs {
            match r {
                Ok(data) => {
                    ev["out"][&name] = json!(digest(&data));
                    // load/save fixed point after the first save
                    let is_xml = name == "xml";
                    let load = |d: &[u8]| if is_xml { read_xml(d, "ReadUnknown") } else { read_bin(d) };
                    let save = |d: &WeakDom| {
                        let kids = d.root().children().to_vec();
                        if is_xml {
                            write_xml(d, &kids, "WriteUnknown")
                        } else {
                            write_bin(d, &kids, match name.as_str() { "bin_lz4" => CompressionType::Lz4, "bin_zstd" => CompressionType::Zstd, _ => CompressionType::None })
                        }
                    };
                    let chain = load(&data).and_then(|d1| save(&d1)).and_then(|s2| load(&s2).and_then(|d2| save(&d2)).map(|s3| (s2, s3)));
                    match chain {
                        Ok((s2, s3)) => ev["resave"][&name] = json!([digest(&s2), digest(&s3)]),
                        Err(e) => ev["resave"][&name] = json!(["failed", e]),
                    }
                }
                Err(e) => ev["out"][&name] = json!(format!("failed:{}", e)),
            }
        }
        serde_json::to_writer(&mut *out, &ev).unwrap();
        out.write_all(b"\n").unwrap();
    }
}

#[allow(dead_code)]
fn unused(_: Value) {}

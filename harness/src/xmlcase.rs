//! XML-format cases: DOM -> rbx_xml text -> rbx_xml DOM, logged for XmlFormatTrace.tla.  The text is
//! turned into a token tree by tools/xmltok.py (Python's expat: independent of xml-rs and rbx_xml).

use std::io::Write;
use std::panic::{catch_unwind, AssertUnwindSafe};

use rand::rngs::StdRng;
use rand::{Rng, SeedableRng};
use rbx_dom_weak::types::{Ref, VariantType};
use rbx_dom_weak::WeakDom;
use rbx_xml::{DecodeOptions, DecodePropertyBehavior, EncodeOptions, EncodePropertyBehavior};
use serde_json::{json, Value};

use crate::bincase::{outcome_class, panic_msg};
use crate::gen;
use crate::pval::pforest;

pub fn enc_options(name: &str) -> EncodeOptions<'static> {
    EncodeOptions::new().property_behavior(match name {
        "WriteUnknown" => EncodePropertyBehavior::WriteUnknown,
        "NoReflection" => EncodePropertyBehavior::NoReflection,
        "ErrorOnUnknown" => EncodePropertyBehavior::ErrorOnUnknown,
        _ => EncodePropertyBehavior::IgnoreUnknown,
    })
}

pub fn dec_options(name: &str) -> DecodeOptions<'static> {
    DecodeOptions::new().property_behavior(match name {
        "ReadUnknown" => DecodePropertyBehavior::ReadUnknown,
        "NoReflection" => DecodePropertyBehavior::NoReflection,
        "ErrorOnUnknown" => DecodePropertyBehavior::ErrorOnUnknown,
        _ => DecodePropertyBehavior::IgnoreUnknown,
    })
}

pub fn write_xml(dom: &WeakDom, roots: &[Ref], enc: &str) -> Result<Vec<u8>, String> {
    let mut buf = Vec::new();
    let r = catch_unwind(AssertUnwindSafe(|| rbx_xml::to_writer(&mut buf, dom, roots, enc_options(enc))));
    match r {
        Ok(Ok(())) => Ok(buf),
        Ok(Err(e)) => Err(format!("err:{}", e)),
        Err(p) => Err(format!("panic:{}", panic_msg(p))),
    }
}

pub fn read_xml(data: &[u8], dec: &str) -> Result<WeakDom, String> {
    let r = catch_unwind(AssertUnwindSafe(|| rbx_xml::from_reader(data, dec_options(dec))));
    match r {
        Ok(Ok(dom)) => Ok(dom),
        Ok(Err(e)) => Err(format!("err:{}", e)),
        Err(p) => Err(format!("panic:{}", panic_msg(p))),
    }
}

pub fn xml_event(ep: &str, dom: &WeakDom, roots: &[Ref], enc: &str, dec: &str) -> Value {
    let mut ev = json!({"ep": ep, "op": "xml_case", "enc": enc, "dec": dec, "before": pforest(dom, roots)});
    match write_xml(dom, roots, enc) {
        Ok(data) => {
            ev["write"] = json!("ok");
            match String::from_utf8(data.clone()) {
                Ok(s) => ev["text"] = json!(s),
                Err(_) => ev["text_invalid_utf8"] = json!(1),
            }
            match read_xml(&data, dec) {
                Ok(back) => {
                    ev["read"] = json!("ok");
                    let kids: Vec<Ref> = back.root().children().to_vec();
                    ev["after"] = pforest(&back, &kids);
                    ev["root_class"] = json!(back.root().class.as_str());
                }
                Err(e) => {
                    ev["read"] = json!(outcome_class(&e));
                    ev["read_detail"] = json!(e);
                }
            }
        }
        Err(e) => {
            ev["write"] = json!(outcome_class(&e));
            ev["write_detail"] = json!(e);
        }
    }
    ev
}

/// value types the README marks as implemented for rbx_xml
pub fn xml_types() -> Vec<VariantType> {
    let mut v = gen::BINARY_TYPES.to_vec();
    v.push(VariantType::Vector2int16);
    v
}

pub fn run_random(seed: u64, count: usize, max_instances: usize, mode: &str, out: &mut dyn Write) {
    std::panic::set_hook(Box::new(|_| {}));
    let db = rbx_reflection_database::get();
    let known = gen::known_props(db);
    let mut rng = StdRng::seed_from_u64(seed);
    for i in 0..count {
        let (known_classes, unknown_classes, enc, dec) = match mode {
            "known" => (true, false, "IgnoreUnknown", "IgnoreUnknown"),
            "unknown" => (false, true, "WriteUnknown", "ReadUnknown"),
            "noreflection" => (rng.gen_bool(0.5), true, "NoReflection", "NoReflection"),
            // every combination of the property-behaviour options, on forests with and without unknown properties
            "matrix" => (
                true,
                rng.gen_bool(0.5),
                ["IgnoreUnknown", "WriteUnknown", "ErrorOnUnknown", "NoReflection"][rng.gen_range(0..4)],
                ["IgnoreUnknown", "ReadUnknown", "ErrorOnUnknown", "NoReflection"][rng.gen_range(0..4)],
            ),
            _ => (true, true, "WriteUnknown", "ReadUnknown"),
        };
        let spec = gen::DomSpec {
            max_instances: if i % 7 == 0 { 1 } else { max_instances },
            max_depth: 5,
            known_classes,
            unknown_classes,
            types: xml_types(),
            xml_safe: true,
            props_per_instance: 4,
        };
        let dom = if mode == "shapes" || mode == "scale" { gen::shaped_dom(&mut rng, true, mode == "scale", &known) } else { gen::random_dom(&mut rng, &spec, &known) };
        let roots: Vec<Ref> = match rng.gen_range(0..3) {
            0 => {
                let mut t = dom.root().children().to_vec();
                t.reverse();
                t
            }
            _ => dom.root().children().to_vec(),
        };
        let ev = xml_event(&format!("xml:{}:{}:{}", mode, seed, i), &dom, &roots, enc, dec);
        serde_json::to_writer(&mut *out, &ev).unwrap();
        out.write_all(b"\n").unwrap();
    }
}

/// C16 closure through the XML codec: every serializable, non-migrating descriptor (canonical and alias spellings)
/// once, as a one-property instance with a value of the declared type, default options; several per case.
pub fn run_descriptors(seed: u64, per_case: usize, out: &mut dyn Write) {
    std::panic::set_hook(Box::new(|_| {}));
    let db = rbx_reflection_database::get();
    let known = gen::known_props(db);
    let types = xml_types();
    let mut rng = StdRng::seed_from_u64(seed);
    for (ci, chunk) in known.chunks(per_case).enumerate() {
        let mut dom = WeakDom::new(rbx_dom_weak::InstanceBuilder::new("DataModel"));
        let root = dom.root_ref();
        let mut roots = Vec::new();
        for k in chunk {
            if k.name == "UniqueId" || k.name == "Name" || !types.contains(&k.ty) {
                continue;
            }
            if let Some(v) = gen::value_of(k.ty, &mut rng, &roots, true) {
                if matches!(&v, rbx_dom_weak::types::Variant::Content(c) if matches!(c.value(), rbx_dom_weak::types::ContentType::Object(_))) {
                    continue; // recorded C02 finding: the XML writer cannot write object references yet
                }
                let b = rbx_dom_weak::InstanceBuilder::new(k.class.as_str()).with_name("D").with_property(k.name.as_str(), v);
                roots.push(dom.insert(root, b));
            }
        }
        let ev = xml_event(&format!("xdesc:{}:{}", seed, ci), &dom, &roots, "IgnoreUnknown", "IgnoreUnknown");
        serde_json::to_writer(&mut *out, &ev).unwrap();
        out.write_all(b"\n").unwrap();
    }
}

/// Every boundary value of every type (gen::boundary_values): known spellings with the default options, the unknown
/// class with WriteUnknown + ReadUnknown; independent of the seed.
pub fn run_boundary(k: usize, out: &mut dyn Write) {
    std::panic::set_hook(Box::new(|_| {}));
    let known = gen::known_props(rbx_reflection_database::get());
    for (label, dom) in gen::boundary_doms(&xml_types(), &known, true, k, true, 6) {
        let roots: Vec<Ref> = dom.root().children().to_vec();
        let unknown = label.contains(".VerifBoundary.");
        let (enc, dec) = if unknown { ("WriteUnknown", "ReadUnknown") } else { ("IgnoreUnknown", "IgnoreUnknown") };
        let ev = xml_event(&format!("xbound:{}", label), &dom, &roots, enc, dec);
        serde_json::to_writer(&mut *out, &ev).unwrap();
        out.write_all(b"\n").unwrap();
    }
}

/// Small forests with values of more than a mebibyte (SharedString, BinaryString, String): the document's text is
/// judged like any other (tools/xmltok.py replaces every byte string longer than 8 KiB - in the forests and in the
/// views of the document's text alike - by its SHA-256 and length, so that TLC compares digests).
pub fn run_bigvalues(seed: u64, count: usize, out: &mut dyn Write) {
    use rbx_dom_weak::types::{BinaryString, SharedString, Variant};
    std::panic::set_hook(Box::new(|_| {}));
    let known = gen::known_props(rbx_reflection_database::get());
    let shared_known = known.iter().find(|k| k.ty == VariantType::SharedString && !k.is_alias);
    let mut rng = StdRng::seed_from_u64(seed);
    const MIB: usize = 1024 * 1024;
    for i in 0..count {
        let sizes = [MIB + 1, MIB, 3 * MIB + 2, MIB + MIB / 2, 2 * MIB - 1, 70_000];
        let blob = |rng: &mut StdRng, n: usize| -> Vec<u8> { (0..n).map(|_| rng.gen()).collect() };
        let mut dom = WeakDom::new(rbx_dom_weak::InstanceBuilder::new("DataModel"));
        let root = dom.root_ref();
        let a = blob(&mut rng, sizes[i % sizes.len()]);
        let b = blob(&mut rng, sizes[(i + 2) % sizes.len()]);
        let (enc, dec);
        if i % 2 == 0 || shared_known.is_none() {
            enc = "WriteUnknown";
            dec = "ReadUnknown";
            let text: String = (0..MIB + 17).map(|j| (b'a' + ((j * 7 + i) % 26) as u8) as char).collect();
            dom.insert(root, rbx_dom_weak::InstanceBuilder::new("VerifBig").with_name("S1").with_property("BigShared", Variant::SharedString(SharedString::new(a.clone()))));
            dom.insert(root, rbx_dom_weak::InstanceBuilder::new("VerifBig").with_name("S2").with_property("BigShared", Variant::SharedString(SharedString::new(a.clone())))
                .with_property("BigBinary", Variant::BinaryString(BinaryString::from(b.clone()))));
            dom.insert(root, rbx_dom_weak::InstanceBuilder::new("VerifBig").with_name("S3").with_property("BigText", Variant::String(text)));
        } else {
            enc = "IgnoreUnknown";
            dec = "IgnoreUnknown";
            let k = shared_known.unwrap();
            dom.insert(root, rbx_dom_weak::InstanceBuilder::new(k.class.as_str()).with_name("K1").with_property(k.name.as_str(), Variant::SharedString(SharedString::new(a.clone()))));
            dom.insert(root, rbx_dom_weak::InstanceBuilder::new(k.class.as_str()).with_name("K2").with_property(k.name.as_str(), Variant::SharedString(SharedString::new(b.clone()))));
            dom.insert(root, rbx_dom_weak::InstanceBuilder::new(k.class.as_str()).with_name("K3").with_property(k.name.as_str(), Variant::SharedString(SharedString::new(a.clone()))));
        }
        let roots: Vec<Ref> = dom.root().children().to_vec();
        let ev = xml_event(&format!("xbig:{}:{}", seed, i), &dom, &roots, enc, dec);
        serde_json::to_writer(&mut *out, &ev).unwrap();
        out.write_all(b"\n").unwrap();
    }
}

/// Foreign documents (tools/foreign_xml.py): read each with rbx_xml's default options.
pub fn run_foreign(input: &mut dyn std::io::BufRead, out: &mut dyn Write) {
    std::panic::set_hook(Box::new(|_| {}));
    let mut text = String::new();
    input.read_to_string(&mut text).unwrap();
    for line in text.lines() {
        if line.trim().is_empty() {
            continue;
        }
        let case: Value = serde_json::from_str(line).unwrap();
        let mut ev = json!({"ep": case["ep"], "op": "xml_foreign", "logical": case["logical"], "text": case["text"],
                            "style": case["style"]});
        match read_xml(case["text"].as_str().unwrap().as_bytes(), "IgnoreUnknown") {
            Ok(back) => {
                ev["read"] = json!("ok");
                let kids: Vec<Ref> = back.root().children().to_vec();
                ev["after"] = pforest(&back, &kids);
            }
            Err(e) => {
                ev["read"] = json!(outcome_class(&e));
                ev["read_detail"] = json!(e);
            }
        }
        serde_json::to_writer(&mut *out, &ev).unwrap();
        out.write_all(b"\n").unwrap();
    }
}

/// Probe for the recorded finding: a Content value holding an object reference.
pub fn run_probe_content_object(out: &mut dyn Write) {
    std::panic::set_hook(Box::new(|_| {}));
    use rbx_dom_weak::types::Content;
    use rbx_dom_weak::InstanceBuilder;
    let mut dom = WeakDom::new(InstanceBuilder::new("DataModel"));
    let root = dom.root_ref();
    let a = dom.insert(root, InstanceBuilder::new("Folder").with_name("Target"));
    let b = dom.insert(root, InstanceBuilder::new("Decal").with_name("Holder").with_property("TextureContent", Content::from_referent(a)));
    let ev = xml_event("probe:content-object", &dom, &[a, b], "IgnoreUnknown", "IgnoreUnknown");
    serde_json::to_writer(&mut *out, &ev).unwrap();
    out.write_all(b"\n").unwrap();
}

/// Populations (same input as bin-pop) through the XML codec; used for diagnosis and C07.
pub fn run_populations(input: &mut dyn std::io::BufRead, out: &mut dyn Write) {
    std::panic::set_hook(Box::new(|_| {}));
    let mut text = String::new();
    input.read_to_string(&mut text).unwrap();
    for line in text.lines() {
        if line.trim().is_empty() {
            continue;
        }
        let case: Value = serde_json::from_str(line).unwrap();
        let class = case["class"].as_str().unwrap();
        let mut dom = WeakDom::new(rbx_dom_weak::InstanceBuilder::new("DataModel"));
        let root = dom.root_ref();
        let mut roots = Vec::new();
        for (i, names) in case["insts"].as_array().unwrap().iter().enumerate() {
            let mut b = rbx_dom_weak::InstanceBuilder::new(class).with_name(format!("I{}", i + 1));
            for (j, n) in names.as_array().unwrap().iter().enumerate() {
                let n = n.as_str().unwrap();
                b.add_property(n, crate::bincase::value_for_spelling(class, n, (i * 10 + j) as u32 + 1));
            }
            roots.push(dom.insert(root, b));
        }
        let ev = xml_event(case["ep"].as_str().unwrap_or("pop"), &dom, &roots, "IgnoreUnknown", "IgnoreUnknown");
        serde_json::to_writer(&mut *out, &ev).unwrap();
        out.write_all(b"\n").unwrap();
    }
}

/// Huge exact-identity forests through the XML codec (WriteUnknown + ReadUnknown), logged by fingerprint only.
pub fn run_huge(seed: u64, count: usize, out: &mut dyn Write) {
    std::panic::set_hook(Box::new(|_| {}));
    let mut rng = StdRng::seed_from_u64(seed);
    for i in 0..count {
        let dom = gen::huge_dom(&mut rng, i + seed as usize);
        let roots: Vec<Ref> = dom.root().children().to_vec();
        let mut ev = json!({"ep": format!("xmlhuge:{}:{}", seed, i), "op": "xml_fp", "enc": "WriteUnknown", "dec": "ReadUnknown",
                            "fp_before": crate::pval::forest_fp(&dom, &roots)});
        match write_xml(&dom, &roots, "WriteUnknown") {
            Ok(data) => {
                ev["write"] = json!("ok");
                ev["bytes"] = json!(data.len());
                match read_xml(&data, "ReadUnknown") {
                    Ok(back) => {
                        ev["read"] = json!("ok");
                        let kids: Vec<Ref> = back.root().children().to_vec();
                        ev["fp_after"] = json!(crate::pval::forest_fp(&back, &kids));
                    }
                    Err(e) => ev["read"] = json!(outcome_class(&e)),
                }
            }
            Err(e) => ev["write"] = json!(outcome_class(&e)),
        }
        serde_json::to_writer(&mut *out, &ev).unwrap();
        out.write_all(b"\n").unwrap();
    }
}

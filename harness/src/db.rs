//! Export of the bundled reflection database (through the public rbx_reflection types) as JSON
//! that TLC's Json module can load: objects keyed by name, no nulls, no floats.

use std::collections::BTreeMap;
use std::io::Write;

use rbx_reflection::{DataType, PropertyKind, PropertySerialization, ReflectionDatabase};
use serde_json::{json, Map, Value};

use crate::pval;

pub fn data_type(dt: &DataType) -> (String, String) {
    match dt {
        DataType::Value(ty) => ("value".to_string(), format!("{:?}", ty)),
        DataType::Enum(name) => ("enum".to_string(), name.to_string()),
        _ => ("unknown".to_string(), String::new()),
    }
}

pub fn export(db: &ReflectionDatabase, out: &mut dyn Write) {
    let refs = pval::RefMap::new();
    let mut classes = Map::new();
    let sorted: BTreeMap<_, _> = db.classes.iter().collect();
    for (cname, class) in sorted {
        let mut props = Map::new();
        let psorted: BTreeMap<_, _> = class.properties.iter().collect();
        for (pname, p) in psorted {
            let (dkind, dname) = data_type(&p.data_type);
            let mut rec = json!({
                "name": p.name.as_ref(),
                "name_b": pval::bytes(p.name.as_bytes()),
                "dkind": dkind, "dtype": dname,
                "kind": "", "alias_for": "", "ser": "", "ser_as": "", "mig_to": "", "mig_op": "",
            });
            match &p.kind {
                PropertyKind::Canonical { serialization } => {
                    rec["kind"] = json!("canonical");
                    match serialization {
                        PropertySerialization::Serializes => rec["ser"] = json!("serializes"),
                        PropertySerialization::DoesNotSerialize => rec["ser"] = json!("no"),
                        PropertySerialization::SerializesAs(n) => {
                            rec["ser"] = json!("as");
                            rec["ser_as"] = json!(n.as_ref());
                        }
                        PropertySerialization::Migrate(m) => {
                            rec["ser"] = json!("migrate");
                            rec["mig_to"] = json!(m.new_property_name);
                            let dbg = format!("{:?}", m);
                            let op = dbg.split("migration: ").nth(1).unwrap_or("").trim_end_matches(" }").to_string();
                            rec["mig_op"] = json!(op);
                        }
                        _ => rec["ser"] = json!("unknown"),
                    }
                }
                PropertyKind::Alias { alias_for } => {
                    rec["kind"] = json!("alias");
                    rec["alias_for"] = json!(alias_for.as_ref());
                }
                _ => rec["kind"] = json!("unknown"),
            }
            props.insert(pname.to_string(), rec);
        }
        let mut defaults = Map::new();
        let dsorted: BTreeMap<_, _> = class.default_properties.iter().collect();
        for (dname, v) in dsorted {
            defaults.insert(dname.to_string(), pval::pval(v, &refs));
        }
        let mut tags: Vec<String> = class.tags.iter().map(|t| format!("{:?}", t)).collect();
        tags.sort();
        classes.insert(
            cname.to_string(),
            json!({
                "name": class.name.as_ref(),
                "name_b": pval::bytes(class.name.as_bytes()),
                "superclass": class.superclass.as_deref().unwrap_or(""),
                "tags": tags,
                "props": Value::Object(props),
                "defaults": Value::Object(defaults),
            }),
        );
    }
    let mut enums = Map::new();
    let esorted: BTreeMap<_, _> = db.enums.iter().collect();
    for (ename, e) in esorted {
        let mut items = Map::new();
        let isorted: BTreeMap<_, _> = e.items.iter().collect();
        for (iname, v) in isorted {
            items.insert(iname.to_string(), pval::bytes(&v.to_be_bytes()));
        }
        enums.insert(ename.to_string(), json!({"name": e.name.as_ref(), "items": Value::Object(items)}));
    }
    // BrickColor number -> RGB, dense (index = number, [] where no colour has that number)
    let mut bricks: Vec<Value> = Vec::new();
    for n in 0..=1032u16 {
        bricks.push(match rbx_types::BrickColor::from_number(n) {
            Some(b) => {
                let c = b.to_color3uint8();
                json!([c.r, c.g, c.b])
            }
            None => json!([]),
        });
    }
    let doc = json!({
        "brickcolors": bricks,
        "version": db.version.to_vec(),
        "classes": Value::Object(classes),
        "enums": Value::Object(enums),
    });
    serde_json::to_writer(&mut *out, &doc).unwrap();
    out.write_all(b"\n").unwrap();
}

/// The answers of rbx_reflection's own lookup functions, one line per class, for ReflectionLookupTrace.tla:
/// the superclass chain (`superclasses`, `superclasses_iter`), `has_superclass` against every class on and one
/// class off the chain, and `find_default_property` for every name that has a default anywhere on the chain
/// plus one name that has none.
pub fn export_lookups(db: &ReflectionDatabase, out: &mut dyn Write) {
    let refs = pval::RefMap::new();
    let mut names: Vec<&str> = db.classes.keys().map(|k| k.as_ref()).collect();
    names.sort();
    for (i, cname) in names.iter().enumerate() {
        let class = &db.classes[*cname];
        let chain: Vec<String> = db.superclasses(class).map(|v| v.iter().map(|c| c.name.to_string()).collect()).unwrap_or_default();
        let chain_iter: Vec<String> = db.superclasses_iter(class).map(|c| c.name.to_string()).collect();
        let mut wanted: Vec<String> = Vec::new();
        for c in db.superclasses_iter(class) {
            for n in c.default_properties.keys() {
                if !wanted.iter().any(|w| w == n.as_ref()) {
                    wanted.push(n.to_string());
                }
            }
        }
        wanted.sort();
        wanted.push("VerifNoSuchProperty".to_string());
        let defaults: Vec<Value> = wanted
            .iter()
            .map(|n| match db.find_default_property(class, n) {
                Some(v) => json!([n, pval::pval(v, &refs)]),
                None => json!([n, {"t": "none"}]),
            })
            .collect();
        let other = names[(i * 7 + 3) % names.len()];
        let mut isa: Vec<Value> = chain_iter.iter().map(|s| json!([s, db.has_superclass(class, &db.classes[s.as_str()]) as u8])).collect();
        isa.push(json!([other, db.has_superclass(class, &db.classes[other]) as u8]));
        let ev = json!({"ep": format!("lookup:{}", cname), "class": cname, "chain": chain, "chain_iter": chain_iter, "isa": isa, "defaults": defaults});
        serde_json::to_writer(&mut *out, &ev).unwrap();
        out.write_all(b"\n").unwrap();
    }
}

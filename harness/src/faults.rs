//! C13: decoders/serializers under truncation, read() partitions incl. Interrupted, failing sinks,
//! structured field mutations, deep nesting and random bytes.  Each case logs its outcome class
//! {ok, err, panic(site)}; aborts and hangs are observed by the driver (the case id is logged
//! before the case runs).  The delivery schedules come from IoFaults.tla (TLC).

use std::cell::RefCell;
use std::io::{self, Read, Write};
use std::panic::{catch_unwind, AssertUnwindSafe};

use rand::rngs::StdRng;
use rand::{Rng, SeedableRng};
use rbx_binary::CompressionType;
use rbx_dom_weak::types::*;
use rbx_dom_weak::{InstanceBuilder, WeakDom};
use serde_json::{json, Value};

use crate::pval::pforest;

thread_local! {
    static LAST_PANIC: RefCell<String> = RefCell::new(String::new());
}

pub fn install_hook() {
    std::panic::set_hook(Box::new(|info| {
        let loc = info.location().map(|l| format!("{}", l.file().rsplit('/').next().unwrap_or(""))).unwrap_or_default();
        let line = info.location().map(|l| l.line()).unwrap_or(0);
        if std::env::var("RBXV_PANIC_LINES").is_ok() { eprintln!("PANIC-AT {}:{}", loc, line); }
        let msg = info
            .payload()
            .downcast_ref::<String>()
            .cloned()
            .or_else(|| info.payload().downcast_ref::<&str>().map(|s| s.to_string()))
            .unwrap_or_default();
        let short: String = msg.chars().take(70).map(|c| if c.is_ascii_digit() { '#' } else { c }).collect();
        LAST_PANIC.with(|p| *p.borrow_mut() = format!("{}|{}", loc, short));
    }));
}

/// A reader that delivers its bytes according to a schedule: sizes of successive read() results
/// (cycled) and the indices of read() calls that fail with ErrorKind::Interrupted first.
pub struct ScheduledReader<'a> {
    data: &'a [u8],
    pos: usize,
    sizes: Vec<usize>,
    interrupts: Vec<usize>,
    calls: usize,
    size_idx: usize,
}

impl<'a> ScheduledReader<'a> {
    pub fn new(data: &'a [u8], sizes: Vec<usize>, interrupts: Vec<usize>) -> Self {
        ScheduledReader { data, pos: 0, sizes, interrupts, calls: 0, size_idx: 0 }
    }
}

impl<'a> Read for ScheduledReader<'a> {
    fn read(&mut self, buf: &mut [u8]) -> io::Result<usize> {
        let call = self.calls;
        self.calls += 1;
        if self.interrupts.contains(&call) {
            return Err(io::Error::new(io::ErrorKind::Interrupted, "scheduled interruption"));
        }
        if buf.is_empty() || self.pos >= self.data.len() {
            return Ok(0);
        }
        let want = self.sizes[self.size_idx % self.sizes.len()].max(1);
        self.size_idx += 1;
        let n = want.min(buf.len()).min(self.data.len() - self.pos);
        buf[..n].copy_from_slice(&self.data[self.pos..self.pos + n]);
        self.pos += n;
        Ok(n)
    }
}

/// A sink that accepts `limit` bytes and then fails.
pub struct FailingSink {
    limit: usize,
    written: usize,
}

impl Write for FailingSink {
    fn write(&mut self, buf: &[u8]) -> io::Result<usize> {
        if self.written >= self.limit {
            return Err(io::Error::new(io::ErrorKind::Other, "sink failure"));
        }
        let n = buf.len().min(self.limit - self.written);
        self.written += n;
        Ok(n)
    }
    fn flush(&mut self) -> io::Result<()> {
        Ok(())
    }
}

/// A sink that never fails but takes at most `chunk` bytes per call (the Write contract allows that: pipes,
/// compressors, line writers do it): what reaches it must not depend on the chunk size.
pub struct ChunkSink {
    chunk: usize,
    pub taken: Vec<u8>,
}

impl ChunkSink {
    pub fn new(chunk: usize) -> ChunkSink {
        ChunkSink { chunk, taken: Vec::new() }
    }
}

impl Write for ChunkSink {
    fn write(&mut self, buf: &[u8]) -> io::Result<usize> {
        let n = buf.len().min(self.chunk.max(1));
        self.taken.extend_from_slice(&buf[..n]);
        Ok(n)
    }
    fn flush(&mut self) -> io::Result<()> {
        Ok(())
    }
}

fn corpus_attrs() -> Attributes {
    let mut attrs = Attributes::new();
    attrs.insert("Name".into(), Variant::String("value".into()));
    attrs.insert("Frame".into(), Variant::CFrame(CFrame::new(Vector3::new(1.0, 2.0, 3.0), Matrix3::identity())));
    attrs.insert("Seq".into(), Variant::NumberSequence(NumberSequence { keypoints: vec![NumberSequenceKeypoint::new(0.0, 1.0, 0.0), NumberSequenceKeypoint::new(1.0, 0.0, 0.0)] }));
    attrs.insert("Font".into(), Variant::Font(Font::default()));
    attrs
}

fn corpus_dom() -> (WeakDom, Vec<Ref>) {
    let mut dom = WeakDom::new(InstanceBuilder::new("DataModel"));
    let root = dom.root_ref();
    let mut attrs = Attributes::new();
    attrs.insert("A".into(), Variant::Float64(1.5));
    attrs.insert("B".into(), Variant::String("x".into()));
    let folder = dom.insert(
        root,
        InstanceBuilder::new("Folder")
            .with_name("Corpus")
            .with_property("Attributes", attrs)
            .with_child(InstanceBuilder::new("IntValue").with_name("I").with_property("Value", Variant::Int64(-5)))
            .with_child(InstanceBuilder::new("NumberValue").with_name("N").with_property("Value", Variant::Float64(2.25)))
            .with_child(InstanceBuilder::new("StringValue").with_name("S").with_property("Value", Variant::String("hello <world> & co".into())))
            .with_child(
                InstanceBuilder::new("Part")
                    .with_name("P")
                    .with_property("CFrame", Variant::CFrame(CFrame::new(Vector3::new(1.0, 2.0, 3.0), Matrix3::identity())))
                    .with_property("Size", Variant::Vector3(Vector3::new(4.0, 1.0, 2.0)))
                    .with_property("Color", Variant::Color3(Color3::new(0.5, 0.25, 1.0)))
                    .with_property("Anchored", Variant::Bool(true)),
            )
            .with_child(InstanceBuilder::new("Model").with_name("M").with_property("ModelMeshData", Variant::SharedString(SharedString::new(b"shared-bytes".to_vec())))),
    );
    let target = dom.get_by_ref(folder).unwrap().children()[0];
    let ov = dom.insert(folder, InstanceBuilder::new("ObjectValue").with_name("O").with_property("Value", Variant::Ref(target)));
    let _ = ov;
    (dom, vec![folder])
}

pub fn corpus() -> Vec<(String, Vec<u8>)> {
    let (dom, roots) = corpus_dom();
    let mut out = Vec::new();
    for (n, c) in [("bin_none", CompressionType::None), ("bin_lz4", CompressionType::Lz4), ("bin_zstd", CompressionType::Zstd)] {
        let mut buf = Vec::new();
        rbx_binary::Serializer::new().compression_type(c).serialize(&mut buf, &dom, &roots).unwrap();
        out.push((n.to_string(), buf));
    }
    let mut buf = Vec::new();
    rbx_xml::to_writer_default(&mut buf, &dom, &roots).unwrap();
    out.push(("xml".to_string(), buf));
    // one value of every type both formats implement, on an instance of an unknown class: every per-type
    // decoder is then within reach of the truncation / mutation / delivery sweeps
    {
        use rand::SeedableRng;
        let mut rng = rand::rngs::StdRng::seed_from_u64(77);
        let mut all = WeakDom::new(InstanceBuilder::new("DataModel"));
        let root = all.root_ref();
        let target = all.insert(root, InstanceBuilder::new("Folder").with_name("T"));
        let mut b = InstanceBuilder::new("VerifAllTypes").with_name("A");
        for ty in crate::gen::BINARY_TYPES.iter() {
            if let Some(v) = crate::gen::value_of(*ty, &mut rng, &[target], true) {
                b.add_property(format!("P{:?}", ty), v);
            }
        }
        let a = all.insert(root, b);
        let mut buf = Vec::new();
        rbx_binary::Serializer::new().compression_type(CompressionType::None).serialize(&mut buf, &all, &[target, a]).unwrap();
        out.push(("bin_all".to_string(), buf));
        let mut buf = Vec::new();
        let opts = rbx_xml::EncodeOptions::new().property_behavior(rbx_xml::EncodePropertyBehavior::WriteUnknown);
        if rbx_xml::to_writer(&mut buf, &all, &[target, a], opts).is_ok() {
            out.push(("xml_all".to_string(), buf));
        }
    }
    let attrs = corpus_attrs();
    let mut buf = Vec::new();
    attrs.to_writer(&mut buf).unwrap();
    out.push(("attr".to_string(), buf));
    out
}

/// decode with the decoder that belongs to `target`; returns (outcome, digest-of-result or site)
pub fn decode<R: Read>(target: &str, reader: R) -> (String, String) {
    LAST_PANIC.with(|p| p.borrow_mut().clear());
    let r = catch_unwind(AssertUnwindSafe(|| -> Result<String, String> {
        if target.starts_with("bin") {
            rbx_binary::from_reader(reader).map(|d| { let k = d.root().children().to_vec(); pforest(&d, &k).to_string() }).map_err(|e| e.to_string())
        } else if target.starts_with("xml") {
            rbx_xml::from_reader_default(reader).map(|d| { let k = d.root().children().to_vec(); pforest(&d, &k).to_string() }).map_err(|e| e.to_string())
        } else {
            Attributes::from_reader(reader).map(|a| crate::pval::attributes(&a, &crate::pval::RefMap::new()).to_string()).map_err(|e| format!("{:?}", e))
        }
    }));
    match r {
        Ok(Ok(s)) => ("ok".into(), blake3::hash(s.as_bytes()).to_hex()[..16].to_string()),
        Ok(Err(_)) => ("err".into(), String::new()),
        Err(_) => ("panic".into(), LAST_PANIC.with(|p| p.borrow().clone())),
    }
}

fn emit(out: &mut dyn Write, ev: Value) {
    serde_json::to_writer(&mut *out, &ev).unwrap();
    out.write_all(b"\n").unwrap();
    out.flush().unwrap();
}

static CASE_NO: std::sync::atomic::AtomicUsize = std::sync::atomic::AtomicUsize::new(0);

/// Announces a case before it runs (flushed, so that the driver can attribute an abort or a hang to it)
/// and tells whether to run it: after an abort the driver restarts the run with RBXV_START_AT set to
/// the index after the case that died.
fn start(out: &mut dyn Write, id: &str) -> bool {
    let n = CASE_NO.fetch_add(1, std::sync::atomic::Ordering::SeqCst);
    let start_at: usize = std::env::var("RBXV_START_AT").ok().and_then(|s| s.parse().ok()).unwrap_or(0);
    if n < start_at {
        return false;
    }
    emit(out, json!({"op": "start", "ep": id, "n": n}));
    true
}

pub fn run_truncate(out: &mut dyn Write, step: usize) {
    install_hook();
    for (target, data) in corpus() {
        for k in (0..data.len()).step_by(step.max(1)) {
            let id = format!("trunc:{}:{}", target, k);
            if !start(out, &id) {
                continue;
            }
            let (o, d) = decode(&target, &data[..k]);
            emit(out, json!({"op": "fault", "ep": id, "kind": "truncate", "target": target, "at": k, "len": data.len(), "outcome": o, "site": d}));
        }
    }
}

/// schedules: ndjson {"sizes":[..], "interrupts":[..]} (from IoFaults.tla)
pub fn run_schedules(input: &mut dyn io::BufRead, out: &mut dyn Write) {
    install_hook();
    let mut text = String::new();
    input.read_to_string(&mut text).unwrap();
    let scheds: Vec<Value> = text.lines().filter(|l| !l.trim().is_empty()).map(|l| serde_json::from_str(l).unwrap()).collect();
    for (target, data) in corpus() {
        let (bo, bd) = decode(&target, &data[..]);
        emit(out, json!({"op": "fault", "ep": format!("sched:{}:whole", target), "kind": "whole", "target": target, "outcome": bo, "digest": bd}));
        for (i, s) in scheds.iter().enumerate() {
            let sizes: Vec<usize> = s["sizes"].as_array().unwrap().iter().map(|x| x.as_u64().unwrap() as usize).collect();
            let ints: Vec<usize> = s["interrupts"].as_array().unwrap().iter().map(|x| x.as_u64().unwrap() as usize).collect();
            let id = format!("sched:{}:{}", target, i);
            if !start(out, &id) {
                continue;
            }
            let (o, d) = decode(&target, ScheduledReader::new(&data, sizes.clone(), ints.clone()));
            emit(out, json!({"op": "fault", "ep": id, "kind": "schedule", "target": target, "sizes": sizes, "interrupts": ints,
                             "outcome": o, "digest": d, "whole_outcome": bo, "whole_digest": bd}));
        }
    }
}

pub fn run_sinkfail(out: &mut dyn Write, step: usize) {
    install_hook();
    let (dom, roots) = corpus_dom();
    // partial writes: a sink that takes 1, 2, 3, 7 or 64 bytes per call receives exactly the bytes a sink that takes
    // everything receives
    let attrs = corpus_attrs();
    for (target, data) in corpus() {
        if target.ends_with("_all") {
            continue;
        }
        for chunk in [1usize, 2, 3, 7, 64] {
            let id = format!("sink:{}:partial{}", target, chunk);
            if !start(out, &id) {
                continue;
            }
            LAST_PANIC.with(|p| p.borrow_mut().clear());
            let mut sink = ChunkSink { chunk, taken: Vec::new() };
            let r = catch_unwind(AssertUnwindSafe(|| -> Result<(), String> {
                match target.as_str() {
                    "bin_none" => rbx_binary::Serializer::new().compression_type(CompressionType::None).serialize(&mut sink, &dom, &roots).map_err(|e| e.to_string()),
                    "bin_lz4" => rbx_binary::Serializer::new().compression_type(CompressionType::Lz4).serialize(&mut sink, &dom, &roots).map_err(|e| e.to_string()),
                    "bin_zstd" => rbx_binary::Serializer::new().compression_type(CompressionType::Zstd).serialize(&mut sink, &dom, &roots).map_err(|e| e.to_string()),
                    "attr" => attrs.to_writer(&mut sink).map_err(|e| format!("{:?}", e)),
                    _ => rbx_xml::to_writer_default(&mut sink, &dom, &roots).map_err(|e| e.to_string()),
                }
            }));
            let (o, site) = match r {
                Ok(Ok(())) => ("ok".to_string(), String::new()),
                Ok(Err(_)) => ("err".to_string(), String::new()),
                Err(_) => ("panic".to_string(), LAST_PANIC.with(|p| p.borrow().clone())),
            };
            let digest = |b: &[u8]| blake3::hash(b).to_hex()[..16].to_string();
            emit(out, json!({"op": "fault", "ep": id, "kind": "partial", "target": target, "chunk": chunk, "outcome": o, "site": site,
                             "digest": digest(&sink.taken), "whole_digest": digest(&data), "bytes": sink.taken.len(), "whole_bytes": data.len()}));
        }
    }
    for (target, data) in corpus() {
        if target == "attr" {
            continue;
        }
        if target.ends_with("_all") {
            continue; // the writers are exercised on the first corpus DOM
        }
        for k in (0..data.len()).step_by(step.max(1)) {
            let id = format!("sink:{}:{}", target, k);
            if !start(out, &id) {
                continue;
            }
            LAST_PANIC.with(|p| p.borrow_mut().clear());
            let r = catch_unwind(AssertUnwindSafe(|| -> Result<(), String> {
                let sink = FailingSink { limit: k, written: 0 };
                match target.as_str() {
                    "bin_none" => rbx_binary::Serializer::new().compression_type(CompressionType::None).serialize(sink, &dom, &roots).map_err(|e| e.to_string()),
                    "bin_lz4" => rbx_binary::Serializer::new().compression_type(CompressionType::Lz4).serialize(sink, &dom, &roots).map_err(|e| e.to_string()),
                    "bin_zstd" => rbx_binary::Serializer::new().compression_type(CompressionType::Zstd).serialize(sink, &dom, &roots).map_err(|e| e.to_string()),
                    _ => rbx_xml::to_writer_default(sink, &dom, &roots).map_err(|e| e.to_string()),
                }
            }));
            let (o, site) = match r {
                Ok(Ok(())) => ("ok".to_string(), String::new()),
                Ok(Err(_)) => ("err".to_string(), String::new()),
                Err(_) => ("panic".to_string(), LAST_PANIC.with(|p| p.borrow().clone())),
            };
            emit(out, json!({"op": "fault", "ep": id, "kind": "sinkfail", "target": target, "at": k, "len": data.len(), "outcome": o, "site": site}));
        }
    }
}

/// structured mutations: every 4-byte aligned-or-not little-endian field position is overwritten by
/// boundary values; every single byte by 0x00 / 0xff / +1; on the uncompressed binary file, the XML
/// text and the attribute blob.
pub fn run_mutate(out: &mut dyn Write, step: usize, u32_step: usize) {
    install_hook();
    for (target, data) in corpus() {
        if target == "bin_lz4" || target == "bin_zstd" {
            continue;
        }
        for k in (0..data.len()).step_by(step.max(1)) {
            let mut variants: Vec<(String, Vec<u8>)> = Vec::new();
            for (name, b) in [("zero", 0u8), ("ff", 0xff), ("inc", data[k].wrapping_add(1))] {
                let mut m = data.clone();
                m[k] = b;
                variants.push((format!("byte-{}", name), m));
            }
            if k + 4 <= data.len() && k % u32_step.max(1) == 0 {
                let v = u32::from_le_bytes(data[k..k + 4].try_into().unwrap());
                for (name, nv) in [("0", 0u32), ("1", 1), ("m1", v.wrapping_sub(1)), ("p1", v.wrapping_add(1)), ("i32max", 0x7fff_ffff), ("u32max", 0xffff_ffff)] {
                    let mut m = data.clone();
                    m[k..k + 4].copy_from_slice(&nv.to_le_bytes());
                    variants.push((format!("u32-{}", name), m));
                }
            }
            for (vn, m) in variants {
                let id = format!("mut:{}:{}:{}", target, k, vn);
                if !start(out, &id) {
                continue;
            }
                let (o, d) = decode(&target, &m[..]);
                emit(out, json!({"op": "fault", "ep": id, "kind": "mutate", "target": target, "at": k, "variant": vn, "outcome": o, "site": if o == "panic" { d } else { String::new() }}));
            }
        }
    }
}

fn deep_dom(d: usize) -> (WeakDom, Ref) {
    let mut dom = WeakDom::new(InstanceBuilder::new("DataModel"));
    let root = dom.root_ref();
    let top = dom.insert(root, InstanceBuilder::new("Folder"));
    let mut parent = top;
    for _ in 1..d {
        parent = dom.insert(parent, InstanceBuilder::new("Folder"));
    }
    (dom, top)
}

fn guarded(f: impl FnOnce() -> Result<(), String>) -> (String, String) {
    LAST_PANIC.with(|p| p.borrow_mut().clear());
    match catch_unwind(AssertUnwindSafe(f)) {
        Ok(Ok(())) => ("ok".to_string(), String::new()),
        Ok(Err(_)) => ("err".to_string(), String::new()),
        Err(_) => ("panic".to_string(), LAST_PANIC.with(|p| p.borrow().clone())),
    }
}

pub fn run_depth(out: &mut dyn Write, depths: &[usize]) {
    install_hook();
    for &d in depths {
        // XML reader: d nested Items
        let id = format!("depth:xml:{}", d);
        if !start(out, &id) {
            continue;
        }
        let mut s = String::from("<roblox version=\"4\">");
        for i in 0..d {
            s.push_str(&format!("<Item class=\"Folder\" referent=\"{}\"><Properties><string name=\"Name\">F</string></Properties>", i));
        }
        for _ in 0..d {
            s.push_str("</Item>");
        }
        s.push_str("</roblox>");
        let (o, site) = decode("xml", s.as_bytes());
        emit(out, json!({"op": "fault", "ep": id, "kind": "depth", "target": "xml", "depth": d, "outcome": o, "site": if o == "panic" { site } else { String::new() }}));
    }
    for &d in depths {
        // binary writer + reader on a chain of d Folders
        let id = format!("depth:bin:{}", d);
        if !start(out, &id) {
            continue;
        }
        let (dom, top) = deep_dom(d);
        let (o, site) = guarded(|| {
            let mut buf = Vec::new();
            rbx_binary::to_writer(&mut buf, &dom, &[top]).map_err(|e| e.to_string())?;
            rbx_binary::from_reader(&buf[..]).map(|_| ()).map_err(|e| e.to_string())
        });
        emit(out, json!({"op": "fault", "ep": id, "kind": "depth", "target": "bin", "depth": d, "outcome": o, "site": site}));
    }
    for &d in depths {
        // XML writer on the deep DOM
        let id = format!("depth:xmlwrite:{}", d);
        if !start(out, &id) {
            continue;
        }
        let (dom, top) = deep_dom(d);
        let (o, site) = guarded(|| {
            let mut buf = Vec::new();
            rbx_xml::to_writer_default(&mut buf, &dom, &[top]).map_err(|e| e.to_string())
        });
        emit(out, json!({"op": "fault", "ep": id, "kind": "depth", "target": "xmlwrite", "depth": d, "outcome": o, "site": site}));
    }
}

pub fn run_random(seed: u64, count: usize, out: &mut dyn Write) {
    install_hook();
    let mut rng = StdRng::seed_from_u64(seed);
    let corp = corpus();
    for i in 0..count {
        let (target, base) = &corp[rng.gen_range(0..corp.len())];
        let mut m: Vec<u8> = match rng.gen_range(0..4) {
            0 => (0..rng.gen_range(0..200)).map(|_| rng.gen()).collect(),
            1 => {
                // valid prefix + random tail
                let k = rng.gen_range(0..base.len());
                let mut v = base[..k].to_vec();
                v.extend((0..rng.gen_range(0..64)).map(|_| rng.gen::<u8>()));
                v
            }
            _ => base.clone(),
        };
        for _ in 0..rng.gen_range(0..6) {
            if m.is_empty() {
                break;
            }
            let k = rng.gen_range(0..m.len());
            match rng.gen_range(0..3) {
                0 => m[k] ^= 1 << rng.gen_range(0..8),
                1 => m[k] = rng.gen(),
                _ => {
                    // splice: duplicate a slice elsewhere
                    let a = rng.gen_range(0..m.len());
                    let l = rng.gen_range(0..(m.len() - a).min(40) + 1);
                    let piece = m[a..a + l].to_vec();
                    let at = rng.gen_range(0..=m.len());
                    m.splice(at..at, piece);
                }
            }
        }
        let id = format!("rand:{}:{}:{}", target, seed, i);
        if !start(out, &id) {
            continue;
        }
        let (o, d) = decode(target, &m[..]);
        emit(out, json!({"op": "fault", "ep": id, "kind": "random", "target": target, "outcome": o, "site": if o == "panic" { d } else { String::new() },
                         "bytes": if o == "panic" { crate::pval::bytes(&m) } else { json!([]) }}));
    }
}

/// Structural mutations: whole chunks of an uncompressed binary file duplicated, dropped, swapped or moved;
/// the text of every XML element and the value of every XML attribute replaced by hostile strings (multi-byte
/// characters at every length, overlong numbers, empty text ...).  Decoders must answer ok or err.
/// Typed blobs: the readers decode the bytes of a string-like value into Tags / Attributes / MaterialColors when the
/// database says the property has that type, and fall back to a BinaryString when they do not decode.  Files whose
/// blob is a valid value cut to every length (and a few patterns of every length) are produced by the writers
/// themselves (they store the bytes of a BinaryString given for such a property as they are) and read back.
fn run_blobs(out: &mut dyn Write) {
    use rbx_dom_weak::types::{BinaryString, Color3uint8, MaterialColors, Tags, TerrainMaterials};
    let mut mc = MaterialColors::new();
    mc.set_color(TerrainMaterials::Grass, Color3uint8::new(1, 2, 3));
    let mut tags = Tags::new();
    for t in ["alpha", "beta gamma", "\u{e9}t\u{e9}", "d", "eeeeeeeeeeeeeeeeeeeeeeeeeeeeeeeeeeeeeeeeeee"] {
        tags.push(t);
    }
    let mut attrs = Attributes::new();
    attrs.insert("A".into(), Variant::Float64(1.5));
    attrs.insert("Bb".into(), Variant::String("xyz".into()));
    attrs.insert("C".into(), Variant::Vector3(Vector3::new(1.0, 2.0, 3.0)));
    attrs.insert("D".into(), Variant::Bool(true));
    let mut attr_bytes = Vec::new();
    attrs.to_writer(&mut attr_bytes).unwrap();
    let cases: [(&str, &str, Vec<u8>); 3] =
        [("Terrain", "MaterialColors", mc.encode()), ("Folder", "Tags", tags.encode()), ("Folder", "AttributesSerialize", attr_bytes)];
    for (class, prop, valid) in cases.iter() {
        let mut blobs: Vec<(String, Vec<u8>)> = Vec::new();
        for n in 0..=valid.len() + 6 {
            blobs.push((format!("cut{}", n), valid.iter().copied().chain(std::iter::repeat(0)).take(n).collect()));
            blobs.push((format!("ff{}", n), vec![0xff; n]));
            blobs.push((format!("ramp{}", n), (0..n).map(|i| (i * 37 + 11) as u8).collect()));
        }
        for (bn, blob) in blobs {
            let mut dom = WeakDom::new(InstanceBuilder::new("DataModel"));
            let root = dom.root_ref();
            let r = dom.insert(root, InstanceBuilder::new(*class).with_name("B").with_property(*prop, Variant::BinaryString(BinaryString::from(blob))));
            for target in ["bin_blob", "xml_blob"] {
                let mut buf = Vec::new();
                let written = catch_unwind(AssertUnwindSafe(|| {
                    if target == "bin_blob" {
                        rbx_binary::Serializer::new().compression_type(CompressionType::None).serialize(&mut buf, &dom, &[r]).is_ok()
                    } else {
                        rbx_xml::to_writer_default(&mut buf, &dom, &[r]).is_ok()
                    }
                }));
                if !matches!(written, Ok(true)) {
                    continue;
                }
                let id = format!("struct:{}:{}.{}:{}", target, class, prop, bn);
                if !start(out, &id) {
                    continue;
                }
                let (o, d) = decode(target, &buf[..]);
                emit(out, json!({"op": "fault", "ep": id, "kind": "structure", "target": target, "variant": format!("{}.{}:{}", class, prop, bn), "outcome": o,
                                 "site": if o == "panic" { d } else { String::new() }}));
            }
        }
    }
}

pub fn run_structure(out: &mut dyn Write) {
    install_hook();
    run_blobs(out);
    for (target, data) in corpus() {
        if target == "bin_none" || target == "bin_all" {
            // header is 32 bytes; chunk = 16 byte frame + stored bytes
            let mut chunks: Vec<(usize, usize)> = Vec::new();
            let mut pos = 32;
            while pos + 16 <= data.len() {
                let clen = u32::from_le_bytes(data[pos + 4..pos + 8].try_into().unwrap()) as usize;
                let len = u32::from_le_bytes(data[pos + 8..pos + 12].try_into().unwrap()) as usize;
                let stored = if clen == 0 { len } else { clen };
                if pos + 16 + stored > data.len() {
                    break;
                }
                chunks.push((pos, pos + 16 + stored));
                pos += 16 + stored;
            }
            let build = |order: &[usize]| -> Vec<u8> {
                let mut v = data[..32].to_vec();
                for &i in order {
                    v.extend_from_slice(&data[chunks[i].0..chunks[i].1]);
                }
                v
            };
            let n = chunks.len();
            let base: Vec<usize> = (0..n).collect();
            let mut variants: Vec<(String, Vec<u8>)> = Vec::new();
            for i in 0..n {
                let mut dup = base.clone();
                dup.insert(i + 1, i);
                variants.push((format!("dup{}", i), build(&dup)));
                let mut dup_end = base.clone();
                dup_end.insert(n - 1, i);
                variants.push((format!("dup-late{}", i), build(&dup_end)));
                let mut del = base.clone();
                del.remove(i);
                variants.push((format!("drop{}", i), build(&del)));
                if i + 1 < n {
                    let mut sw = base.clone();
                    sw.swap(i, i + 1);
                    variants.push((format!("swap{}", i), build(&sw)));
                }
                let mut front = base.clone();
                let x = front.remove(i);
                front.insert(0, x);
                variants.push((format!("front{}", i), build(&front)));
            }
            // the whole body once more before END, and every pair of chunks repeated (in order) before END
            if n >= 2 {
                let mut twice: Vec<usize> = (0..n - 1).collect();
                twice.extend(0..n - 1);
                twice.push(n - 1);
                variants.push(("body-twice".to_string(), build(&twice)));
                for i in 0..n - 1 {
                    for j in (i + 1)..n - 1 {
                        let mut o = base.clone();
                        o.insert(n - 1, i);
                        o.insert(n, j);
                        variants.push((format!("dup-pair{}-{}", i, j), build(&o)));
                    }
                }
            }
            for (vn, m) in variants {
                let id = format!("struct:{}:{}", target, vn);
                if !start(out, &id) {
                    continue;
                }
                let (o, d) = decode(&target, &m[..]);
                emit(out, json!({"op": "fault", "ep": id, "kind": "structure", "target": target, "variant": vn, "outcome": o,
                                 "site": if o == "panic" { d } else { String::new() }}));
            }
        } else if target.starts_with("xml") {
            let text = String::from_utf8_lossy(&data).to_string();
            let zeros15 = "0".repeat(15);
            let hostile: Vec<String> = vec![
                "".into(), " ".into(), "\u{e9}".into(), "\u{e9}".repeat(16), format!("{}\u{e9}{}", zeros15, zeros15),
                format!("{}\u{1F600}{}", "0".repeat(14), "0".repeat(14)), "-1".into(), "99999999999999999999999".into(),
                "1e999".into(), "NaN".into(), "-INF".into(), "null".into(), "true".into(), "0x10".into(), "AAAA".into(),
                "=".into(), "RBX0".into(), "9".repeat(400), "0 1".into(), "1 2 3 4 5 6 7 8 9 10 11".into(),
            ];
            // text nodes: between '>' and '<' with something other than whitespace (CDATA sections count as text)
            let bytes = text.as_bytes();
            let mut spans: Vec<(usize, usize)> = Vec::new();
            let mut i = 0;
            while i < bytes.len() {
                if bytes[i] == b'>' {
                    let s = i + 1;
                    let mut e = s;
                    while e < bytes.len() && bytes[e] != b'<' {
                        e += 1;
                    }
                    if e > s && !text[s..e].trim().is_empty() {
                        spans.push((s, e));
                    }
                    i = e;
                } else {
                    i += 1;
                }
            }
            // attribute values: ="..."
            let mut i = 0;
            while i + 1 < bytes.len() {
                if bytes[i] == b'=' && bytes[i + 1] == b'"' {
                    let s = i + 2;
                    let mut e = s;
                    while e < bytes.len() && bytes[e] != b'"' {
                        e += 1;
                    }
                    spans.push((s, e));
                    i = e;
                } else {
                    i += 1;
                }
            }
            for (k, (s, e)) in spans.iter().enumerate() {
                for (hi, h) in hostile.iter().enumerate() {
                    let mut m = String::with_capacity(text.len() + h.len());
                    m.push_str(&text[..*s]);
                    m.push_str(h);
                    m.push_str(&text[*e..]);
                    let id = format!("struct:{}:span{}:h{}", target, k, hi);
                    if !start(out, &id) {
                        continue;
                    }
                    let (o, d) = decode(&target, m.as_bytes());
                    emit(out, json!({"op": "fault", "ep": id, "kind": "structure", "target": target, "variant": format!("span{}:h{}", k, hi), "outcome": o,
                                     "site": if o == "panic" { d } else { String::new() }}));
                }
            }
        }
    }
}

//! C14: attribute maps -> blob (Attributes::to_writer) -> map (Attributes::from_reader), logged for
//! AttrTrace.tla; and foreign blobs (tools/foreign_attr.py) decoded by the real reader.

use std::io::Write;
use std::panic::{catch_unwind, AssertUnwindSafe};

use rand::rngs::StdRng;
use rand::SeedableRng;
use rbx_dom_weak::types::Attributes;
use serde_json::{json, Value};

use crate::bincase::panic_msg;
use crate::gen;
use crate::pval::{attributes, bytes, RefMap};

fn decode(blob: &[u8]) -> Value {
    match catch_unwind(AssertUnwindSafe(|| Attributes::from_reader(blob))) {
        Ok(Ok(a)) => json!({"read": "ok", "map": attributes(&a, &RefMap::new())}),
        Ok(Err(e)) => json!({"read": "err", "detail": format!("{:?}", e)}),
        Err(p) => json!({"read": "panic", "detail": panic_msg(p)}),
    }
}

/// The bytes both file formats store for the Attributes property of sibling instances carrying `maps`, next to the
/// bytes Attributes::to_writer gives for each map.
fn stored_blobs(maps: &[Attributes]) -> Value {
    use rbx_dom_weak::types::Variant;
    use rbx_dom_weak::{InstanceBuilder, WeakDom};
    let mut dom = WeakDom::new(InstanceBuilder::new("DataModel"));
    let root = dom.root_ref();
    let mut roots = Vec::new();
    let mut expected = Vec::new();
    for (k, m) in maps.iter().enumerate() {
        roots.push(dom.insert(root, InstanceBuilder::new("Folder").with_name(format!("F{}", k)).with_property("Attributes", Variant::Attributes(m.clone()))));
        let mut buf = Vec::new();
        if m.to_writer(&mut buf).is_err() {
            return json!({"skipped": "a sibling map cannot be encoded"});
        }
        expected.push(bytes(&buf));
    }
    let raw = |back: Result<WeakDom, String>| -> Value {
        match back {
            Ok(d) => Value::Array(
                d.root()
                    .children()
                    .iter()
                    .map(|r| {
                        let inst = d.get_by_ref(*r).unwrap();
                        let vals: Vec<&Variant> = inst.properties.iter().filter(|(k, _)| k.as_str() == "AttributesSerialize" || k.as_str() == "Attributes").map(|(_, v)| v).collect();
                        match vals.as_slice() {
                            [] => bytes(&[]),
                            [Variant::BinaryString(b)] => bytes(b.as_ref()),
                            _ => json!("not-a-raw-string"),
                        }
                    })
                    .collect(),
            ),
            Err(e) => json!({"failed": e}),
        }
    };
    let nodb = rbx_reflection::ReflectionDatabase::new();
    let mut bin = Vec::new();
    let bin_back = match catch_unwind(AssertUnwindSafe(|| rbx_binary::to_writer(&mut bin, &dom, &roots))) {
        Ok(Ok(())) => catch_unwind(AssertUnwindSafe(|| rbx_binary::Deserializer::new().reflection_database(&nodb).deserialize(&bin[..])))
            .map_err(|p| format!("panic:{}", panic_msg(p)))
            .and_then(|r| r.map_err(|e| format!("err:{}", e))),
        Ok(Err(e)) => Err(format!("write-err:{}", e)),
        Err(p) => Err(format!("write-panic:{}", panic_msg(p))),
    };
    let xml_back = crate::xmlcase::write_xml(&dom, &roots, "IgnoreUnknown").and_then(|d| crate::xmlcase::read_xml(&d, "NoReflection"));
    json!({"expected": expected, "bin": raw(bin_back), "xml": raw(xml_back)})
}

pub fn run_random(seed: u64, count: usize, out: &mut dyn Write) {
    std::panic::set_hook(Box::new(|_| {}));
    let mut rng = StdRng::seed_from_u64(seed);
    for i in 0..count {
        let a = if i == 0 { Attributes::new() } else { gen::attributes_any(&mut rng) };
        let mut ev = json!({"ep": format!("attr:{}:{}", seed, i), "op": "attr_case", "map": attributes(&a, &RefMap::new())});
        let mut buf = Vec::new();
        match catch_unwind(AssertUnwindSafe(|| a.to_writer(&mut buf))) {
            Ok(Ok(())) => {
                ev["write"] = json!("ok");
                ev["blob"] = bytes(&buf);
                ev["back"] = decode(&buf);
            }
            Ok(Err(e)) => {
                ev["write"] = json!("err");
                ev["detail"] = json!(format!("{:?}", e));
            }
            Err(p) => {
                ev["write"] = json!("panic");
                ev["detail"] = json!(panic_msg(p));
            }
        }
        // "the same blob is what both file formats store for the Attributes property": every fourth case the map sits
        // on the first of three sibling instances of one class (the others carry maps of their own); the stored bytes
        // are recovered by reading the files without the database (the property then comes back as the raw string)
        // the same bytes reach a sink that takes three bytes per call (the Write contract allows partial writes)
        if i % 4 == 2 && ev["write"] == "ok" {
            let mut sink = crate::faults::ChunkSink::new(3);
            ev["chunked"] = match catch_unwind(AssertUnwindSafe(|| a.to_writer(&mut sink))) {
                Ok(Ok(())) => bytes(&sink.taken),
                Ok(Err(e)) => json!({"err": format!("{:?}", e)}),
                Err(p) => json!({"panic": panic_msg(p)}),
            };
        }
        // ... and the same map comes back from a source that hands the bytes over in pieces of 1, 2, 3 bytes (the Read
        // contract allows short reads; files, pipes and decompressors make them)
        if i % 4 == 3 && ev["write"] == "ok" {
            let mut src = crate::faults::ScheduledReader::new(&buf, vec![1, 2, 3], vec![]);
            ev["back_pieces"] = match catch_unwind(AssertUnwindSafe(|| Attributes::from_reader(&mut src))) {
                Ok(Ok(a)) => json!({"read": "ok", "map": attributes(&a, &RefMap::new())}),
                Ok(Err(e)) => json!({"read": "err", "detail": format!("{:?}", e)}),
                Err(p) => json!({"read": "panic", "detail": panic_msg(p)}),
            };
        }
        if i % 4 == 1 && ev["write"] == "ok" {
            ev["files"] = stored_blobs(&[a.clone(), gen::attributes_any(&mut rng), gen::attributes_any(&mut rng)]);
        }
        serde_json::to_writer(&mut *out, &ev).unwrap();
        out.write_all(b"\n").unwrap();
    }
    // maps too large for the TLA+ decoder, made of values that come back exactly as written (no String, no
    // snapping rotation): the decoded map is compared with the written one through a fingerprint of the projections
    {
        use rbx_dom_weak::types::{ColorSequence, ColorSequenceKeypoint, Color3, NumberSequence, NumberSequenceKeypoint, Variant};
        let n = 66_000usize;
        let mut big = Attributes::new();
        big.insert("Long".to_string(), Variant::NumberSequence(NumberSequence { keypoints: (0..n).map(|i| NumberSequenceKeypoint::new(i as f32 / n as f32, (i % 13) as f32, (i % 4) as f32 * 0.25)).collect() }));
        big.insert("Zafter".to_string(), Variant::Bool(true));
        let mut colors = Attributes::new();
        colors.insert("Colors".to_string(), Variant::ColorSequence(ColorSequence { keypoints: (0..n).map(|i| ColorSequenceKeypoint::new(i as f32 / n as f32, Color3::new((i % 7) as f32 / 7.0, 0.5, 1.0))).collect() }));
        colors.insert("Zafter".to_string(), Variant::Int32(7));
        let mut many = Attributes::new();
        for i in 0..70_000 {
            many.insert(format!("k{:05}", i), Variant::Float64(i as f64 * 0.5));
        }
        let mut wide = Attributes::new();
        wide.insert("Blob".to_string(), Variant::BinaryString((0..1_200_000usize).map(|i| (i % 253) as u8).collect::<Vec<u8>>().into()));
        for (k, a) in [big, colors, many, wide].into_iter().enumerate() {
            let fp = |a: &Attributes| blake3::hash(attributes(a, &RefMap::new()).to_string().as_bytes()).to_hex().to_string();
            let mut ev = json!({"ep": format!("attr:{}:huge{}", seed, k), "op": "attr_fp", "fp_before": fp(&a), "entries": a.len()});
            let mut buf = Vec::new();
            match catch_unwind(AssertUnwindSafe(|| a.to_writer(&mut buf))) {
                Ok(Ok(())) => {
                    ev["write"] = json!("ok");
                    ev["bytes"] = json!(buf.len());
                    match catch_unwind(AssertUnwindSafe(|| Attributes::from_reader(&buf[..]))) {
                        Ok(Ok(b)) => {
                            ev["read"] = json!("ok");
                            ev["fp_after"] = json!(fp(&b));
                        }
                        Ok(Err(e)) => {
                            ev["read"] = json!("err");
                            ev["detail"] = json!(format!("{:?}", e));
                        }
                        Err(p) => {
                            ev["read"] = json!("panic");
                            ev["detail"] = json!(panic_msg(p));
                        }
                    }
                }
                _ => ev["write"] = json!("err"),
            }
            serde_json::to_writer(&mut *out, &ev).unwrap();
            out.write_all(b"\n").unwrap();
        }
    }
    // zero bytes decode to an empty map
    let ev = json!({"ep": format!("attr:{}:empty", seed), "op": "attr_foreign", "blob": [], "described": [], "back": decode(&[])});
    serde_json::to_writer(&mut *out, &ev).unwrap();
    out.write_all(b"\n").unwrap();
}

/// foreign blobs: ndjson {"ep", "blob": [bytes], "described": attribute list in the pval shape}
pub fn run_foreign(input: &mut dyn std::io::BufRead, out: &mut dyn Write) {
    std::panic::set_hook(Box::new(|_| {}));
    let mut text = String::new();
    input.read_to_string(&mut text).unwrap();
    for line in text.lines() {
        if line.trim().is_empty() {
            continue;
        }
        let case: Value = serde_json::from_str(line).unwrap();
        let blob: Vec<u8> = case["blob"].as_array().unwrap().iter().map(|x| x.as_u64().unwrap() as u8).collect();
        let ev = json!({"ep": case["ep"], "op": "attr_foreign", "blob": case["blob"], "described": case["described"], "back": decode(&blob)});
        serde_json::to_writer(&mut *out, &ev).unwrap();
        out.write_all(b"\n").unwrap();
    }
}

/// The in-memory Attributes API (insert / remove / get / clear / drain) under a seeded driver; every call
/// is logged with its return value and the map's ordered content, for AttrMapTrace.tla.
pub fn run_map(seed: u64, episodes: usize, steps: usize, out: &mut dyn Write) {
    use rand::Rng;
    use rbx_dom_weak::types::Variant;
    let keys = ["", "a", "b", "ab", "B", "\u{e9}"];
    let mut rng = StdRng::seed_from_u64(seed);
    let val = |v: Option<Variant>| -> i64 { match v { Some(Variant::Int32(x)) => x as i64, Some(_) => -7, None => -1 } };
    for e in 0..episodes {
        let ep = format!("attrmap:{}:{}", seed, e);
        let mut a = Attributes::new();
        let emit = |out: &mut dyn Write, mut ev: Value, a: &Attributes| {
            ev["ep"] = json!(ep);
            ev["post"] = Value::Array(a.iter().map(|(k, v)| json!([bytes(k.as_bytes()), val(Some(v.clone()))])).collect());
            ev["len"] = json!(a.len());
            serde_json::to_writer(&mut *out, &ev).unwrap();
            out.write_all(b"\n").unwrap();
        };
        emit(out, json!({"op": "reset"}), &a);
        for _ in 0..steps {
            let k = keys[rng.gen_range(0..keys.len())];
            match rng.gen_range(0..10) {
                0..=4 => {
                    let v = rng.gen_range(0..5);
                    let ret = val(a.insert(k.to_string(), Variant::Int32(v)));
                    emit(out, json!({"op": "insert", "k": bytes(k.as_bytes()), "v": v, "ret": ret}), &a);
                }
                5 | 6 => {
                    let ret = val(a.remove(k));
                    emit(out, json!({"op": "remove", "k": bytes(k.as_bytes()), "ret": ret}), &a);
                }
                7 => {
                    let ret = val(a.get(k).cloned());
                    emit(out, json!({"op": "get", "k": bytes(k.as_bytes()), "ret": ret}), &a);
                }
                8 => {
                    a.clear();
                    emit(out, json!({"op": "clear"}), &a);
                }
                _ => {
                    let n = rng.gen_range(0..4usize);
                    let taken: Vec<Value> = a.drain().take(n).map(|(k, v)| json!([bytes(k.as_bytes()), val(Some(v))])).collect();
                    emit(out, json!({"op": "drain", "n": n, "ret": taken}), &a);
                }
            }
        }
    }
}

//! Driver for DomViewer.tla: one long-lived `DomViewer` looks at two DOMs that keep changing between
//! views.  Every view is logged with the DOM as it was (referents as small labels) and the viewer's
//! answer flattened in its own child order.  No expected numbering lives here.

use std::collections::HashMap;
use std::io::Write;

use rand::rngs::StdRng;
use rand::{Rng, SeedableRng};
use rbx_dom_weak::types::{Ref, SharedString, Variant};
use rbx_dom_weak::{DomViewer, InstanceBuilder, WeakDom};
use serde_json::{json, Value};

struct Labels {
    map: HashMap<Ref, i64>,
    all: Vec<Ref>,
}

impl Labels {
    fn of(&mut self, r: Ref) -> i64 {
        if r.is_none() {
            return 0;
        }
        if let Some(k) = self.map.get(&r) {
            return *k;
        }
        self.all.push(r);
        let k = self.all.len() as i64;
        self.map.insert(r, k);
        k
    }
}

fn ref_props(inst: &rbx_dom_weak::Instance) -> Vec<Ref> {
    let mut out = Vec::new();
    for j in 1.. {
        match inst.properties.get(&format!("RefProp{}", j).as_str().into()) {
            Some(Variant::Ref(r)) => out.push(*r),
            _ => break,
        }
    }
    out
}

fn project(dom: &WeakDom, labels: &mut Labels) -> Value {
    let mut nodes = Vec::new();
    for inst in dom.descendants().take(10_000) {
        let kids: Vec<i64> = inst.children().iter().map(|c| labels.of(*c)).collect();
        let refp: Vec<i64> = ref_props(inst).into_iter().map(|r| labels.of(r)).collect();
        let sslen = match inst.properties.get(&"Shared".into()) {
            Some(Variant::SharedString(s)) => s.data().len() as i64,
            _ => -1,
        };
        nodes.push(json!({"ref": labels.of(inst.referent()), "kids": kids, "refp": refp, "sslen": sslen}));
    }
    Value::Array(nodes)
}

fn shown(v: &Value) -> i64 {
    match v.as_str() {
        Some("null") => -1,
        Some("[unknown ID]") => -2,
        Some(s) => s.strip_prefix("referent-").and_then(|n| n.parse::<i64>().ok()).unwrap_or(-99),
        None => -99,
    }
}

fn flatten(viewed: &Value, out: &mut Vec<Value>) {
    let props = &viewed["properties"];
    let mut refp = Vec::new();
    for j in 1.. {
        match props.get(format!("RefProp{}", j)) {
            Some(v) => refp.push(shown(v)),
            None => break,
        }
    }
    let sslen = props.get("Shared").and_then(|s| s.get("len")).and_then(|l| l.as_i64()).unwrap_or(-1);
    let kids = viewed["children"].as_array().cloned().unwrap_or_default();
    out.push(json!({"id": shown(&viewed["referent"]), "nkids": kids.len(), "refp": refp, "sslen": sslen}));
    for k in &kids {
        flatten(k, out);
    }
}

fn random_target(rng: &mut StdRng, labels: &mut Labels) -> Ref {
    match rng.gen_range(0..10) {
        0 | 1 => Ref::none(),
        2 => {
            let r = Ref::new(); // a referent no DOM ever holds
            labels.of(r);
            r
        }
        _ if labels.all.is_empty() => Ref::none(),
        _ => labels.all[rng.gen_range(0..labels.all.len())],
    }
}

fn random_builder(rng: &mut StdRng, labels: &mut Labels, depth: usize) -> InstanceBuilder {
    let mut b = InstanceBuilder::new(["Folder", "Part", "Model"][rng.gen_range(0..3)]).with_name(format!("n{}", rng.gen::<u8>()));
    labels.of(b.referent());
    for j in 1..=rng.gen_range(0..3) {
        let t = random_target(rng, labels);
        b.add_property(format!("RefProp{}", j), Variant::Ref(t));
    }
    if rng.gen_bool(0.2) {
        let data: Vec<u8> = (0..rng.gen_range(0..9)).map(|_| rng.gen()).collect();
        b.add_property("Shared", Variant::SharedString(SharedString::new(data)));
    }
    if depth < 3 {
        for _ in 0..rng.gen_range(0..3) {
            b.add_child(random_builder(rng, labels, depth + 1));
        }
    }
    b
}

pub fn run(seed: u64, episodes: usize, steps: usize, out: &mut dyn Write) {
    let mut rng = StdRng::seed_from_u64(seed);
    for e in 0..episodes {
        let ep = format!("viewer:{}:{}", seed, e);
        let mut labels = Labels { map: HashMap::new(), all: Vec::new() };
        let mut viewer = DomViewer::new();
        let mut doms: Vec<WeakDom> = (0..2).map(|_| WeakDom::new(random_builder(&mut rng, &mut labels, 1))).collect();
        let mut emit = |ev: Value| {
            serde_json::to_writer(&mut *out, &ev).unwrap();
            out.write_all(b"\n").unwrap();
        };
        emit(json!({"op": "reset", "ep": ep}));
        for _ in 0..steps {
            let d = rng.gen_range(0..2);
            match rng.gen_range(0..10) {
                0..=2 => {
                    let before = project(&doms[d], &mut labels);
                    let root = labels.of(doms[d].root_ref());
                    let viewed = serde_json::to_value(viewer.view(&doms[d])).unwrap();
                    let mut flat = Vec::new();
                    flatten(&viewed, &mut flat);
                    emit(json!({"op": "view", "ep": ep, "root": root, "dom": before, "out": flat}));
                }
                3 | 4 => {
                    let before = project(&doms[d], &mut labels);
                    let root = labels.of(doms[d].root_ref());
                    let viewed = serde_json::to_value(viewer.view_children(&doms[d])).unwrap();
                    let mut flat = Vec::new();
                    for v in viewed.as_array().unwrap() {
                        flatten(v, &mut flat);
                    }
                    emit(json!({"op": "view_children", "ep": ep, "root": root, "dom": before, "out": flat}));
                }
                5 | 6 => {
                    let all: Vec<Ref> = doms[d].descendants().take(10_000).map(|i| i.referent()).collect();
                    let parent = all[rng.gen_range(0..all.len())];
                    let b = random_builder(&mut rng, &mut labels, 2);
                    doms[d].insert(parent, b);
                }
                7 => {
                    let all: Vec<Ref> = doms[d].descendants().take(10_000).map(|i| i.referent()).filter(|r| *r != doms[d].root_ref()).collect();
                    if !all.is_empty() {
                        let victim = all[rng.gen_range(0..all.len())];
                        doms[d].destroy(victim);
                    }
                }
                8 => {
                    let all: Vec<Ref> = doms[d].descendants().take(10_000).map(|i| i.referent()).filter(|r| *r != doms[d].root_ref()).collect();
                    if !all.is_empty() {
                        let moved = all[rng.gen_range(0..all.len())];
                        let (a, b) = doms.split_at_mut(1);
                        let (src, dst) = if d == 0 { (&mut a[0], &mut b[0]) } else { (&mut b[0], &mut a[0]) };
                        let dest_parent = dst.root_ref();
                        src.transfer(moved, dst, dest_parent);
                    }
                }
                _ => {
                    let all: Vec<Ref> = doms[d].descendants().take(10_000).map(|i| i.referent()).collect();
                    let who = all[rng.gen_range(0..all.len())];
                    let t = random_target(&mut rng, &mut labels);
                    let n = ref_props(doms[d].get_by_ref(who).unwrap()).len();
                    let j = rng.gen_range(1..=n + 1);
                    doms[d].get_by_ref_mut(who).unwrap().properties.insert(format!("RefProp{}", j).as_str().into(), Variant::Ref(t));
                }
            }
        }
    }
}

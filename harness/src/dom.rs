//! Binding B/C for WeakDom.tla: executes operation sequences (from TLC or from a seeded
//! random driver) on real `rbx_dom_weak::WeakDom`s and logs one event per call with the
//! projected post-state.  No expected values live here: the TLA+ trace spec is the judge.

use std::collections::HashMap;
use std::io::{BufRead, Write};
use std::panic::{catch_unwind, AssertUnwindSafe};

use rand::rngs::StdRng;
use rand::{Rng, SeedableRng};
use rbx_dom_weak::types::{Ref, UniqueId, Variant};
use rbx_dom_weak::{InstanceBuilder, WeakDom};
use serde_json::{json, Value};

/// Watchdog for calls into the code under test that never return (a defect can make a DOM call loop): the
/// driver notes the call it is about to make; if that call is still running after 20 s the watchdog appends
/// a `hang` event for it to the log (raw write: the main thread holds the stdout lock) and ends the process.
static WATCH: std::sync::Mutex<Option<(std::time::Instant, String)>> = std::sync::Mutex::new(None);

fn start_watchdog() {
    static STARTED: std::sync::Once = std::sync::Once::new();
    STARTED.call_once(|| {
        std::thread::spawn(|| loop {
            std::thread::sleep(std::time::Duration::from_millis(500));
            let due = match &*WATCH.lock().unwrap() {
                Some((t, line)) if t.elapsed() > std::time::Duration::from_secs(20) => Some(line.clone()),
                _ => None,
            };
            if let Some(line) = due {
                use std::os::fd::FromRawFd;
                let mut f = unsafe { std::fs::File::from_raw_fd(1) };
                let _ = f.write_all(line.as_bytes());
                let _ = f.write_all(b"\n");
                let _ = f.flush();
                std::process::exit(0);
            }
        });
    });
}

fn watch(out: &mut dyn Write, ep: &str, op: &Value) {
    let _ = out.flush();
    *WATCH.lock().unwrap() = Some((std::time::Instant::now(), json!({"op": "hang", "ep": ep, "during": op}).to_string()));
}

fn unwatch() {
    *WATCH.lock().unwrap() = None;
}

pub const NUM_DOMS: usize = 2;
const CLASSES: [&str; 3] = ["Folder", "Part", "Model"];

pub struct World {
    pub max_ref: usize,
    pub num_slots: usize,
    pub doms: Vec<Option<WeakDom>>,
    pub refs: Vec<Ref>,
    pub refmap: HashMap<Ref, usize>,
    pub tokens: HashMap<UidKey, i64>,
    pub next_fresh_token: i64,
    pub root_label_override: bool,
}

/// The id a token stands for.  Every third token shares one NEGATIVE random part with its kind (they differ in index
/// and time only), the others have distinct positive ones: ids are equal only if all three parts are.
fn uid_of_token(t: i64) -> UniqueId {
    UniqueId::new(t as u32, 1000 + t as u32, if t % 3 == 0 { -5 } else { t * 7919 + 1 })
}

/// key of the token table: the three parts as the accessors give them (not UniqueId's own Eq / Hash)
type UidKey = (u32, u32, i64);
fn uid_key(id: &UniqueId) -> UidKey {
    (id.index(), id.time(), id.random())
}

impl World {
    pub fn new(max_ref: usize, num_slots: usize) -> World {
        World {
            max_ref,
            num_slots,
            doms: (0..NUM_DOMS).map(|_| None).collect(),
            refs: Vec::new(),
            refmap: HashMap::new(),
            tokens: HashMap::new(),
            next_fresh_token: 1000,
            root_label_override: false,
        }
    }

    fn next_ref(&self) -> usize {
        self.refs.len() + 1
    }

    fn register(&mut self, r: Ref) -> usize {
        if let Some(k) = self.refmap.get(&r) {
            return *k;
        }
        self.refs.push(r);
        let k = self.refs.len();
        self.refmap.insert(r, k);
        k
    }

    fn real(&self, k: i64) -> Ref {
        if k <= 0 {
            Ref::none()
        } else {
            self.refs[(k - 1) as usize]
        }
    }

    fn spec_ref(&self, r: Ref) -> i64 {
        if r.is_none() {
            0
        } else {
            self.refmap.get(&r).map(|k| *k as i64).unwrap_or(-9)
        }
    }

    fn token(&mut self, id: UniqueId) -> i64 {
        if let Some(t) = self.tokens.get(&uid_key(&id)) {
            return *t;
        }
        let t = self.next_fresh_token;
        self.next_fresh_token += 1;
        self.tokens.insert(uid_key(&id), t);
        t
    }

    /// Build a real InstanceBuilder tree from the flattened builder description; registers the
    /// node referents as spec refs nextRef.. in BFS (= sequence) order.
    fn build(&mut self, b: &Value) -> InstanceBuilder {
        self.build_colliding(b, None)
    }

    /// `collide`: (1-based node index, referent already in the DOM) - that node is given the existing referent
    /// through with_referent; it and the nodes after it will never exist and get no specification referent.
    fn build_colliding(&mut self, b: &Value, collide: Option<(usize, Ref)>) -> InstanceBuilder {
        let nodes = b.as_array().unwrap();
        let mut builders: Vec<Option<InstanceBuilder>> = Vec::new();
        let mut new_refs = Vec::new();
        for node in nodes {
            let label = node["label"].as_i64().unwrap();
            // the same instance description through every construction path of the builder API
            // (new / empty + with_class / set_class, with_name / set_name, with_property / with_properties /
            // add_properties, with_referent), chosen by the label so that TLC's histories vary it too
            let class = CLASSES[(label.rem_euclid(3)) as usize];
            let name = format!("L{}", label);
            let value = Variant::Int32(label as i32);
            let mut ib = match label.rem_euclid(5) {
                0 => InstanceBuilder::new(class).with_name(name).with_property("Value", value),
                1 => InstanceBuilder::empty().with_class(class).with_name(name).with_properties([("Value", value)]),
                2 => {
                    let mut b = InstanceBuilder::new("Temporary");
                    b.set_class(class);
                    b.set_name(name);
                    b.add_properties([("Value", value)]);
                    b
                }
                3 => InstanceBuilder::with_property_capacity(class, 4).with_name(name).with_property("Value", Variant::Int32(-1)).with_property("Value", value),
                _ => {
                    let mut b = InstanceBuilder::new(class).with_name(name);
                    b.add_property("Value", value);
                    b
                }
            };
            if label.rem_euclid(4) == 1 {
                let chosen = Ref::new();
                ib = ib.with_referent(chosen);
                if ib.referent() != chosen {
                    ib = ib.with_name("referent-not-taken"); // shows up as a wrong label
                }
            }
            if !ib.has_property("Value") || ib.has_property("NoSuchProperty") {
                ib = ib.with_name("has_property-wrong");
            }
            if let Some((k, existing)) = collide {
                if builders.len() + 1 == k {
                    ib = ib.with_referent(existing);
                }
            }
            new_refs.push(ib.referent());
            builders.push(Some(ib));
        }
        for (i, r) in new_refs.iter().enumerate() {
            if collide.map_or(true, |(k, _)| i + 1 < k) {
                self.register(*r);
            }
        }
        for (i, node) in nodes.iter().enumerate() {
            let mut ib = builders[i].take().unwrap();
            for (s, v) in node["refp"].as_array().unwrap().iter().enumerate() {
                let v = v.as_i64().unwrap();
                if v >= 0 {
                    ib.add_property(format!("RefProp{}", s + 1), Variant::Ref(self.real(v)));
                }
            }
            let u = node["uid"].as_i64().unwrap();
            if u != 0 {
                let id = uid_of_token(u);
                self.tokens.insert(uid_key(&id), u);
                ib.add_property("UniqueId", Variant::UniqueId(id));
            }
            // a UniqueId-typed value under another name (Instance.HistoryId is one) equal to an id some builder
            // uses as its UniqueId: the specification's bookkeeping is about the UniqueId property alone, so this
            // must make no difference to any outcome
            let label = node["label"].as_i64().unwrap();
            if label % 2 == 0 {
                ib.add_property("HistoryId", Variant::UniqueId(uid_of_token(1 + label.rem_euclid(3))));
            }
            builders[i] = Some(ib);
        }
        let mut children: Vec<Vec<usize>> = vec![Vec::new(); nodes.len()];
        for i in 1..nodes.len() {
            let pi = nodes[i]["pi"].as_i64().unwrap() as usize;
            children[pi - 1].push(i);
        }
        // children are attached through with_child / add_child / with_children / add_children in turn
        fn assemble(i: usize, b: &mut Vec<Option<InstanceBuilder>>, ch: &Vec<Vec<usize>>, salt: usize) -> InstanceBuilder {
            let mut ib = b[i].take().unwrap();
            let kids: Vec<InstanceBuilder> = ch[i].iter().map(|&c| assemble(c, b, ch, salt)).collect();
            match (i + kids.len() + salt) % 6 {
                0 => {
                    for k in kids {
                        ib.add_child(k);
                    }
                }
                1 => {
                    for k in kids {
                        ib = ib.with_child(k);
                    }
                }
                2 => ib = ib.with_children(kids),
                3 => ib.add_children(kids),
                4 => {
                    // one child first, the rest as one batch
                    let mut it = kids.into_iter();
                    if let Some(first) = it.next() {
                        ib = ib.with_child(first);
                    }
                    ib = ib.with_children(it.collect::<Vec<_>>());
                }
                _ => {
                    // two batches
                    let mut kids = kids;
                    let rest = kids.split_off(kids.len() / 2);
                    ib.add_children(kids);
                    ib = ib.with_children(rest);
                }
            }
            ib
        }
        let salt = nodes[0]["label"].as_i64().unwrap_or(0).rem_euclid(6) as usize;
        assemble(0, &mut builders, &children, salt)
    }

    fn project(&mut self) -> Value {
        let n = self.max_ref;
        let mut owner = vec![0i64; n];
        let mut parent = vec![0i64; n];
        let mut kids: Vec<Vec<i64>> = vec![Vec::new(); n];
        let mut label = vec![0i64; n];
        let mut refp: Vec<Vec<i64>> = vec![vec![-1; self.num_slots]; n];
        let mut uid = vec![0i64; n];
        for k in 0..self.refs.len().min(n) {
            let r = self.refs[k];
            let mut owners = Vec::new();
            for (d, dom) in self.doms.iter().enumerate() {
                if let Some(dom) = dom {
                    if dom.get_by_ref(r).is_some() {
                        owners.push(d);
                    }
                }
            }
            if owners.is_empty() {
                continue;
            }
            if owners.len() > 1 {
                owner[k] = -2;
                continue;
            }
            let d = owners[0];
            owner[k] = d as i64 + 1;
            let (p, ch, name, class, props): (Ref, Vec<Ref>, String, String, Vec<(String, Variant)>) = {
                let inst = self.doms[d].as_ref().unwrap().get_by_ref(r).unwrap();
                (
                    inst.parent(),
                    inst.children().to_vec(),
                    inst.name.clone(),
                    inst.class.to_string(),
                    inst.properties.iter().map(|(k, v)| (k.to_string(), v.clone())).collect(),
                )
            };
            if self.doms[d].as_ref().unwrap().get_by_ref(r).unwrap().referent() != r {
                owner[k] = -3;
            }
            parent[k] = self.spec_ref(p);
            kids[k] = ch.iter().map(|c| self.spec_ref(*c)).collect();
            // label: name "L<k>", class and Value must be consistent with it, no foreign props
            let mut lab: i64 = name.strip_prefix('L').and_then(|s| s.parse().ok()).unwrap_or(-7);
            if lab >= 0 && class != CLASSES[(lab.rem_euclid(3)) as usize] {
                lab = -7;
            }
            let mut saw_value = false;
            let mut saw_history = false;
            for (pn, pv) in &props {
                if pn == "Value" {
                    saw_value = true;
                    if *pv != Variant::Int32(lab as i32) {
                        lab = -7;
                    }
                } else if pn == "UniqueId" {
                    match pv {
                        Variant::UniqueId(id) => {
                            uid[k] = self.token(*id);
                            // the accessor must agree with the property
                            if self.doms[d].as_ref().unwrap().get_unique_id(r) != Some(*id) {
                                uid[k] = -7;
                            }
                        }
                        _ => uid[k] = -7,
                    }
                } else if let Some(s) = pn.strip_prefix("RefProp") {
                    let s: usize = s.parse().unwrap_or(0);
                    match pv {
                        Variant::Ref(v) if s >= 1 && s <= self.num_slots => {
                            refp[k][s - 1] = self.spec_ref(*v)
                        }
                        _ => lab = -7,
                    }
                } else if pn == "HistoryId" {
                    // the builder's constant companion value: present exactly on even labels, unchanged
                    saw_history = true;
                    if lab < 0 || lab % 2 != 0 || *pv != Variant::UniqueId(uid_of_token(1 + lab.rem_euclid(3))) {
                        lab = -7;
                    }
                } else {
                    lab = -7;
                }
            }
            if !saw_value || (lab >= 0 && lab % 2 == 0 && !saw_history) {
                lab = -7;
            }
            if self.root_label_override && class == "DataModel" && name == "DataModel" && props.iter().all(|(n, _)| n == "UniqueId" || n.starts_with("RefProp")) {
                lab = 99;
            }
            label[k] = lab;
        }
        let mut uidset: Vec<Vec<i64>> = Vec::new();
        let mut root: Vec<i64> = Vec::new();
        for d in 0..NUM_DOMS {
            if self.doms[d].is_some() {
                let ids = self.doms[d].as_ref().unwrap().verif_unique_ids();
                let mut toks: Vec<i64> = ids.into_iter().map(|id| self.token(id)).collect();
                toks.sort();
                uidset.push(toks);
                let rr = self.doms[d].as_ref().unwrap().root_ref();
                root.push(if rr.is_none() { -1 } else { self.spec_ref(rr) });    // -1: Rootless (WeakDom::default())
            } else {
                uidset.push(Vec::new());
                root.push(0);
            }
        }
        json!({"owner": owner, "parent": parent, "kids": kids, "label": label, "refp": refp,
               "uid": uid, "uidset": uidset, "root": root})
    }

    fn two_doms(&mut self, a: usize, b: usize) -> (&mut WeakDom, &mut WeakDom) {
        assert!(a != b);
        if a < b {
            let (x, y) = self.doms.split_at_mut(b);
            (x[a].as_mut().unwrap(), y[0].as_mut().unwrap())
        } else {
            let (x, y) = self.doms.split_at_mut(a);
            (y[0].as_mut().unwrap(), x[b].as_mut().unwrap())
        }
    }

    /// register the referents of freshly cloned subtrees: returned roots first, then BFS
    fn register_clone(&mut self, e: usize, roots: &[Ref]) {
        let mut queue: std::collections::VecDeque<Ref> = roots.iter().copied().collect();
        let mut guard = 0;
        while let Some(r) = queue.pop_front() {
            guard += 1;
            if guard > 10_000 {
                break;
            }
            self.register(r);
            if let Some(inst) = self.doms[e].as_ref().unwrap().get_by_ref(r) {
                queue.extend(inst.children().iter().copied());
            }
        }
    }

    /// Execute one op; returns the events to log (op event + walk events).
    pub fn exec(&mut self, op: &Value) -> Vec<Value> {
        let name = op["op"].as_str().unwrap().to_string();
        let mut ev = op.clone();
        let d = op.get("d").and_then(|v| v.as_i64()).map(|v| (v - 1) as usize);
        let result = catch_unwind(AssertUnwindSafe(|| -> Value {
            match name.as_str() {
                "new" => {
                    let b = self.build(&op["b"]);
                    self.doms[d.unwrap()] = Some(WeakDom::new(b));
                    json!(null)
                }
                "default" => {
                    self.doms[d.unwrap()] = Some(WeakDom::default());
                    json!(null)
                }
                "insert" => {
                    let b = self.build(&op["b"]);
                    let p = self.real(op["p"].as_i64().unwrap());
                    let r = self.doms[d.unwrap()].as_mut().unwrap().insert(p, b);
                    json!(self.spec_ref(r))
                }
                "insert_collide" => {
                    let c = self.real(op["c"].as_i64().unwrap());
                    let b = self.build_colliding(&op["b"], Some((op["k"].as_u64().unwrap() as usize, c)));
                    let p = self.real(op["p"].as_i64().unwrap());
                    let r = self.doms[d.unwrap()].as_mut().unwrap().insert(p, b);
                    json!(self.spec_ref(r))
                }
                "reserve" => {
                    self.doms[d.unwrap()].as_mut().unwrap().reserve(op["n"].as_u64().unwrap() as usize);
                    json!(null)
                }
                "bad" => {
                    // calls the documentation promises to refuse; r = 0 stands for Ref::none() (root of a rootless DOM)
                    let r = self.real(op["r"].as_i64().unwrap());
                    let d = d.unwrap();
                    match op["kind"].as_str().unwrap() {
                        "destroy_root" | "destroy_missing" => self.doms[d].as_mut().unwrap().destroy(r),
                        "transfer_root" => {
                            let e = 1 - d;
                            let p = self.real(op["p"].as_i64().unwrap());
                            let (src, dst) = self.two_doms(d, e);
                            src.transfer(r, dst, p);
                        }
                        "transfer_within_root" | "transfer_within_missing" => {
                            let p = self.real(op["p"].as_i64().unwrap());
                            self.doms[d].as_mut().unwrap().transfer_within(r, p);
                        }
                        "descendants_of_missing" => {
                            let n = self.doms[d].as_ref().unwrap().descendants_of(r).take(3).count();
                            return json!(n);
                        }
                        "clone_missing" => {
                            if op["p"].as_i64().unwrap() % 2 == 0 {
                                self.doms[d].as_mut().unwrap().clone_within(r);
                            } else {
                                let (src, dst) = self.two_doms(d, 1 - d);
                                src.clone_into_external(r, dst);
                            }
                        }
                        other => panic!("unknown bad kind {}", other),
                    }
                    json!(null)
                }
                "destroy" => {
                    let r = self.real(op["r"].as_i64().unwrap());
                    self.doms[d.unwrap()].as_mut().unwrap().destroy(r);
                    json!(null)
                }
                "transfer" => {
                    let r = self.real(op["r"].as_i64().unwrap());
                    let p = self.real(op["p"].as_i64().unwrap());
                    let e = (op["e"].as_i64().unwrap() - 1) as usize;
                    let (src, dst) = self.two_doms(d.unwrap(), e);
                    src.transfer(r, dst, p);
                    json!(null)
                }
                "transfer_within" | "transfer_within_bad" => {
                    let r = self.real(op["r"].as_i64().unwrap());
                    let p = self.real(op["p"].as_i64().unwrap());
                    self.doms[d.unwrap()].as_mut().unwrap().transfer_within(r, p);
                    json!(null)
                }
                "clone" => {
                    let rs: Vec<Ref> = op["rs"]
                        .as_array()
                        .unwrap()
                        .iter()
                        .map(|v| self.real(v.as_i64().unwrap()))
                        .collect();
                    let e = (op["e"].as_i64().unwrap() - 1) as usize;
                    let d = d.unwrap();
                    let roots: Vec<Ref> = if e == d {
                        vec![self.doms[d].as_mut().unwrap().clone_within(rs[0])]
                    } else {
                        let (src, dst) = self.two_doms(d, e);
                        if rs.len() == 1 && op.get("multi").and_then(|m| m.as_bool()) != Some(true) {
                            vec![src.clone_into_external(rs[0], dst)]
                        } else {
                            src.clone_multiple_into_external(&rs, dst)
                        }
                    };
                    self.register_clone(e, &roots);
                    json!(roots.iter().map(|r| self.spec_ref(*r)).collect::<Vec<_>>())
                }
                "rawtrip" => {
                    let dom = self.doms[d.unwrap()].take().unwrap();
                    let (root, map) = dom.into_raw();
                    self.doms[d.unwrap()] = Some(WeakDom::from_raw(root, map));
                    json!(null)
                }
                "setref" => {
                    let r = self.real(op["r"].as_i64().unwrap());
                    let s = op["s"].as_i64().unwrap();
                    let v = self.real(op["v"].as_i64().unwrap());
                    let mut done = false;
                    for dom in self.doms.iter_mut().flatten() {
                        if dom.root_ref() == r {
                            dom.root_mut().properties.insert(format!("RefProp{}", s).into(), Variant::Ref(v));
                            done = true;
                        } else if let Some(inst) = dom.get_by_ref_mut(r) {
                            inst.properties
                                .insert(format!("RefProp{}", s).into(), Variant::Ref(v));
                            done = true;
                        }
                    }
                    assert!(done, "setref target not found");
                    json!(null)
                }
                other => panic!("unknown op {}", other),
            }
        }));
        let mut out = Vec::new();
        match result {
            Ok(ret) => {
                ev["outcome"] = json!("ok");
                if !ret.is_null() {
                    ev["ret"] = ret;
                }
            }
            Err(e) => {
                ev["outcome"] = json!("panic");
                let msg = e
                    .downcast_ref::<String>()
                    .cloned()
                    .or_else(|| e.downcast_ref::<&str>().map(|s| s.to_string()))
                    .unwrap_or_default();
                ev["site"] = json!(msg);
            }
        }
        ev["post"] = self.project();
        out.push(ev);
        out
    }

    /// walk events: descendants() of each DOM and descendants_of(start)
    pub fn walks(&mut self, extra: Option<i64>) -> Vec<Value> {
        let mut out = Vec::new();
        for d in 0..NUM_DOMS {
            if let Some(dom) = self.doms[d].as_ref() {
                if dom.root_ref().is_none() {
                    continue;       // a rootless DOM has no "all descendants" walk
                }
                let start = self.spec_ref(dom.root_ref());
                let y: Vec<i64> = dom.descendants().take(10_000).map(|i| self.spec_ref(i.referent())).collect();
                out.push(json!({"op": "walk", "start": start, "yield": y}));
            }
        }
        if let Some(k) = extra {
            let r = self.real(k);
            for d in 0..NUM_DOMS {
                if let Some(dom) = self.doms[d].as_ref() {
                    if dom.get_by_ref(r).is_some() {
                        let y: Vec<i64> =
                            dom.descendants_of(r).take(10_000).map(|i| self.spec_ref(i.referent())).collect();
                        out.push(json!({"op": "walk", "start": k, "yield": y}));
                    }
                }
            }
        }
        out
    }

    fn live(&self, d: usize) -> Vec<i64> {
        let mut v = Vec::new();
        if let Some(dom) = self.doms[d].as_ref() {
            for (k, r) in self.refs.iter().enumerate() {
                if dom.get_by_ref(*r).is_some() {
                    v.push(k as i64 + 1);
                }
            }
        }
        v
    }

    /// Are the parent links acyclic and every child list free of repeats?  Once they are not (only a defect can
    /// do that - the logged state already shows it), further calls on this DOM may never return, so the
    /// episode is abandoned after logging.
    fn still_a_forest(&self) -> bool {
        for dom in self.doms.iter().flatten() {
            for r in &self.refs {
                if let Some(inst) = dom.get_by_ref(*r) {
                    let mut seen = std::collections::HashSet::new();
                    for c in inst.children() {
                        if !seen.insert(*c) || *c == *r {
                            return false;
                        }
                    }
                    let mut p = inst.parent();
                    let mut steps = 0;
                    while p.is_some() {
                        steps += 1;
                        if p == *r || steps > self.refs.len() + 2 {
                            return false;
                        }
                        p = dom.get_by_ref(p).map(|i| i.parent()).unwrap_or(Ref::none());
                    }
                }
            }
        }
        true
    }

    fn subtree(&self, d: usize, k: i64) -> Vec<i64> {
        let dom = self.doms[d].as_ref().unwrap();
        dom.descendants_of(self.real(k)).take(10_000).map(|i| self.spec_ref(i.referent())).collect()
    }
}

fn emit(out: &mut dyn Write, ep: &str, mut ev: Value) {
    ev["ep"] = json!(ep);
    serde_json::to_writer(&mut *out, &ev).unwrap();
    out.write_all(b"\n").unwrap();
}

fn touched(op: &Value) -> Option<i64> {
    for k in ["r", "p"] {
        if let Some(v) = op.get(k).and_then(|v| v.as_i64()) {
            if v > 0 {
                return Some(v);
            }
        }
    }
    None
}

/// Run episodes given as ndjson lines {"ep": id, "ops": [...]}.
pub fn run(max_ref: usize, num_slots: usize, input: &mut dyn BufRead, out: &mut dyn Write) {
    std::panic::set_hook(Box::new(|_| {}));
    for line in input.lines() {
        let line = line.unwrap();
        if line.trim().is_empty() {
            continue;
        }
        let episode: Value = serde_json::from_str(&line).unwrap();
        let ep = episode["ep"].as_str().map(|s| s.to_string()).unwrap_or_else(|| episode["ep"].to_string());
        let mut w = World::new(max_ref, num_slots);
        emit(out, &ep, json!({"op": "reset"}));
        for op in episode["ops"].as_array().unwrap() {
            start_watchdog();
            watch(out, &ep, op);
            let evs = w.exec(op);
            unwatch();
            let panicked = evs[0]["outcome"] == "panic";
            for ev in evs {
                emit(out, &ep, ev);
            }
            if panicked && op["op"] != "transfer_within_bad" && op["op"] != "insert_collide" && op["op"] != "bad" {
                break;
            }
            if !w.still_a_forest() {
                break;
            }
            for ev in w.walks(touched(op)) {
                emit(out, &ep, ev);
            }
        }
    }
}

fn random_steps(w: &mut World, rng: &mut StdRng, steps: usize, uid_pool: i64, lab_ref: &mut i64, ep: &str, out: &mut dyn Write) {
    let max_ref = w.max_ref;
    let num_slots = w.num_slots;
    let mut lab = *lab_ref;
    for _ in 0..steps {
            let d = rng.gen_range(0..NUM_DOMS);
            let live = w.live(d);
            let root = w.spec_ref(w.doms[d].as_ref().unwrap().root_ref());
            let rootless = w.doms[d].as_ref().unwrap().root_ref().is_none();
            let nonroot: Vec<i64> = live.iter().copied().filter(|r| *r != root).collect();
            let room = max_ref as i64 - w.refs.len() as i64;
            let choice = rng.gen_range(0..100);
            if live.is_empty() && room < 1 {
                continue;
            }
            let op = if rng.gen_bool(0.03) {
                let n = [0usize, 1, 2, 16, 64, 1000][rng.gen_range(0..6)];
                json!({"op": "reserve", "d": d + 1, "n": n})
            } else if rng.gen_bool(0.04) {
                // a call outside the documented preconditions: refused with a panic, nothing changes
                let kinds = ["destroy_root", "transfer_root", "transfer_within_root", "destroy_missing", "transfer_within_missing",
                             "descendants_of_missing", "clone_missing"];
                let kind = kinds[rng.gen_range(0..kinds.len())];
                let other_live = w.live(1 - d);
                let p = match kind {
                    "transfer_root" if !other_live.is_empty() => other_live[rng.gen_range(0..other_live.len())],
                    "transfer_root" => continue,
                    "clone_missing" => rng.gen_range(0..2),
                    _ if !live.is_empty() => live[rng.gen_range(0..live.len())],
                    _ => continue,
                };
                let r = if kind.ends_with("_root") {
                    root
                } else {
                    // a referent this DOM does not hold: destroyed earlier, or living in the other DOM
                    let absent: Vec<i64> = (1..=w.refs.len() as i64).filter(|x| !live.contains(x)).collect();
                    if absent.is_empty() {
                        continue;
                    }
                    absent[rng.gen_range(0..absent.len())]
                };
                json!({"op": "bad", "kind": kind, "d": d + 1, "r": r, "p": p})
            } else if (choice < 25 || live.is_empty()) && room >= 1 {
                // now and then a builder with many children under one node (6-7), the others small
                let b = if room >= 8 && rng.gen_bool(0.12) {
                    { let n = rng.gen_range(7..=8); wide_builder(w, rng, lab, n, uid_pool) }
                } else if room >= 9 && rng.gen_bool(0.15) {
                    // a builder of 6-9 nodes, three or four levels deep, branches and leaves mixed among siblings
                    {
                        let n = rng.gen_range(6..=9);
                        let mut b = random_builder_exact(w, rng, lab, n, uid_pool);
                        if rng.gen_bool(0.5) {
                            // fixed shapes: a branch followed by a leaf (and the reverse) below a node that still has
                            // a later sibling or cousin waiting
                            const SHAPES: [&[i64]; 5] = [&[0, 1, 1, 2, 2, 4], &[0, 1, 1, 2, 2, 3, 4], &[0, 1, 1, 1, 2, 2, 2, 6],
                                                         &[0, 1, 2, 2, 3, 3, 5], &[0, 1, 1, 2, 2, 3, 3, 4, 6]];
                            let shape = SHAPES[rng.gen_range(0..SHAPES.len())];
                            if shape.len() <= n {
                                let nodes = b.as_array_mut().unwrap();
                                nodes.truncate(shape.len());
                                let first = w.next_ref() as i64;
                                for (node, pi) in nodes.iter_mut().zip(shape) {
                                    node["pi"] = json!(*pi);
                                    for v in node["refp"].as_array_mut().unwrap() {
                                        if v.as_i64().unwrap() >= first + shape.len() as i64 {
                                            *v = json!(0);
                                        }
                                    }
                                }
                            }
                        }
                        b
                    }
                } else {
                    random_builder(w, rng, lab, (room as usize).min(4), uid_pool)
                };
                lab += 10;
                let p = if live.is_empty() || rng.gen_range(0..10) == 0 { 0 } else { live[rng.gen_range(0..live.len())] };
                if !live.is_empty() && rng.gen_bool(0.1) {
                    // a builder one of whose nodes was given (with_referent) the referent of an instance of this DOM:
                    // its first or its last node
                    let n = b.as_array().unwrap().len();
                    let k = if rng.gen_bool(0.5) { 1 } else { n };
                    // Ref properties must not name the nodes that will never exist
                    let first_missing = w.next_ref() as i64 + k as i64 - 1;
                    let mut b = b;
                    for node in b.as_array_mut().unwrap() {
                        for v in node["refp"].as_array_mut().unwrap() {
                            if v.as_i64().unwrap() >= first_missing {
                                *v = json!(-1);
                            }
                        }
                    }
                    json!({"op": "insert_collide", "d": d + 1, "p": p, "b": b, "k": k, "c": live[rng.gen_range(0..live.len())]})
                } else {
                    json!({"op": "insert", "d": d + 1, "p": p, "b": b})
                }
            } else if choice < 40 && !nonroot.is_empty() {
                json!({"op": "destroy", "d": d + 1, "r": nonroot[rng.gen_range(0..nonroot.len())]})
            } else if choice < 55 && !nonroot.is_empty() {
                let e = 1 - d;
                let le = w.live(e);
                if le.is_empty() {
                    continue;
                }
                json!({"op": "transfer", "d": d + 1, "r": nonroot[rng.gen_range(0..nonroot.len())],
                       "e": e + 1, "p": le[rng.gen_range(0..le.len())]})
            } else if choice < 72 && !nonroot.is_empty() {
                let r = nonroot[rng.gen_range(0..nonroot.len())];
                let sub = w.subtree(d, r);
                let p = live[rng.gen_range(0..live.len())];
                if sub.contains(&p) {
                    json!({"op": "transfer_within_bad", "d": d + 1, "r": r, "p": p})
                } else {
                    json!({"op": "transfer_within", "d": d + 1, "r": r, "p": p})
                }
            } else if live.is_empty() {
                continue;
            } else if choice < 90 {
                let r = live[rng.gen_range(0..live.len())];
                let sz = w.subtree(d, r).len() as i64;
                if sz > room {
                    continue;
                }
                let which = rng.gen_range(0..3);
                if which == 0 {
                    json!({"op": "clone", "d": d + 1, "rs": [r], "e": d + 1})
                } else if which == 1 {
                    json!({"op": "clone", "d": d + 1, "rs": [r], "e": 2 - d})
                } else {
                    // a second root if there is room: usually disjoint, sometimes the same instance again or an
                    // instance inside / around the first root's subtree
                    let sub = w.subtree(d, r);
                    let overlapping = rng.gen_bool(0.25);
                    let others: Vec<i64> = live
                        .iter()
                        .copied()
                        .filter(|x| overlapping || (!sub.contains(x) && !w.subtree(d, *x).contains(&r)))
                        .collect();
                    if !others.is_empty() {
                        let r2 = others[rng.gen_range(0..others.len())];
                        if sz + w.subtree(d, r2).len() as i64 > room {
                            continue;
                        }
                        json!({"op": "clone", "d": d + 1, "rs": [r, r2], "e": 2 - d, "multi": true})
                    } else {
                        json!({"op": "clone", "d": d + 1, "rs": [r], "e": 2 - d, "multi": true})
                    }
                }
            } else if choice < 93 {
                if rootless {
                    continue;       // from_raw requires a root
                }
                json!({"op": "rawtrip", "d": d + 1})
            } else if num_slots > 0 {
                let r = live[rng.gen_range(0..live.len())];
                let v = rng.gen_range(0..=w.refs.len() as i64);
                json!({"op": "setref", "r": r, "s": rng.gen_range(1..=num_slots), "v": v})
            } else {
                continue;
            };
            start_watchdog();
            watch(out, ep, &op);
            let evs = w.exec(&op);
            unwatch();
            let panicked = evs[0]["outcome"] == "panic";
            for ev in evs {
                emit(out, ep, ev);
            }
            if panicked && op["op"] != "transfer_within_bad" && op["op"] != "insert_collide" && op["op"] != "bad" {
                break;
            }
            if !w.still_a_forest() {
                break;
            }
            for ev in w.walks(touched(&op)) {
                emit(out, ep, ev);
            }
        }
    *lab_ref = lab;
}

/// A root with n-1 leaf children.
fn wide_builder(w: &World, rng: &mut StdRng, label_base: i64, n: usize, uid_pool: i64) -> Value {
    let mut b = random_builder_exact(w, rng, label_base, n, uid_pool);
    for (i, node) in b.as_array_mut().unwrap().iter_mut().enumerate() {
        node["pi"] = json!(if i == 0 { 0 } else { 1 });
    }
    b
}

fn random_builder(w: &World, rng: &mut StdRng, label_base: i64, max_nodes: usize, uid_pool: i64) -> Value {
    let n = rng.gen_range(1..=max_nodes);
    random_builder_exact(w, rng, label_base, n, uid_pool)
}

fn random_builder_exact(w: &World, rng: &mut StdRng, label_base: i64, n: usize, uid_pool: i64) -> Value {
    let base = w.next_ref() as i64;
    let mut nodes = Vec::new();
    let mut pis: Vec<i64> = vec![0];
    for i in 2..=n {
        let lo = *pis.last().unwrap().max(&1);
        pis.push(rng.gen_range(lo..=(i as i64 - 1)));
    }
    for i in 0..n {
        let refp: Vec<i64> = (0..w.num_slots)
            .map(|_| match rng.gen_range(0..6) {
                0 | 1 | 2 => -1,
                3 => 0,
                _ => rng.gen_range(1..=(base + n as i64 - 1)),
            })
            .collect();
        let uid = if uid_pool > 0 && rng.gen_bool(0.5) { rng.gen_range(1..=uid_pool) } else { 0 };
        nodes.push(json!({"pi": pis[i], "label": label_base + i as i64, "refp": refp, "uid": uid}));
    }
    json!(nodes)
}

/// Seeded random driver: long episodes of valid calls.
pub fn drive(seed: u64, episodes: usize, steps: usize, max_ref: usize, num_slots: usize, out: &mut dyn Write) {
    std::panic::set_hook(Box::new(|_| {}));
    let mut rng = StdRng::seed_from_u64(seed);
    for epi in 0..episodes {
        let ep = format!("drive:{}:{}", seed, epi);
        let mut w = World::new(max_ref, num_slots);
        emit(out, &ep, json!({"op": "reset"}));
        let uid_pool = [0, 2, 4, 7][rng.gen_range(0..4)];     // 7: tokens 3 and 6 share their (negative) random part
        let mut lab = 1;
        for d in 1..=NUM_DOMS {
            // every fourth episode the second DOM is WeakDom::default(): no root, filled by clones, transfers
            // and inserts under Ref::none()
            if d == 2 && epi % 4 == 2 {
                for ev in w.exec(&json!({"op": "default", "d": d})) {
                    emit(out, &ep, ev);
                }
                continue;
            }
            let b = random_builder(&w, &mut rng, lab, 3, uid_pool);
            lab += 10;
            let op = json!({"op": "new", "d": d, "b": b});
            for ev in w.exec(&op) {
                emit(out, &ep, ev);
            }
        }
        // when there is room, every other episode starts with one parent that has well over 64 children (a star
        // inserted in one call): the random calls that follow then unlink, move and destroy inside a long child list
        if max_ref >= 80 && epi % 2 == 1 {
            let b = wide_builder(&w, &mut rng, lab, 70, uid_pool);
            lab += 100;
            let root1 = w.spec_ref(w.doms[0].as_ref().unwrap().root_ref());
            let op = json!({"op": "insert", "d": 1, "p": root1, "b": b});
            start_watchdog();
            watch(out, &ep, &op);
            let evs = w.exec(&op);
            unwatch();
            for ev in evs {
                emit(out, &ep, ev);
            }
        }
        // the driver itself walks the DOMs to choose arguments; on a DOM that a defect has already corrupted (the
        // logged state shows it) those walks may panic: the episode ends there, with an event no action explains
        let stepped = catch_unwind(AssertUnwindSafe(|| random_steps(&mut w, &mut rng, steps, uid_pool, &mut lab, &ep, out)));
        if stepped.is_err() {
            unwatch();
            emit(out, &ep, json!({"op": "driver_panic"}));
        }

    }
}

/// C12, reader paths: a DOM obtained from the binary or the XML reader (from a file holding duplicate and
/// distinct UniqueIds) is adopted as DOM 1 of an episode, which then continues with colliding inserts etc.
pub fn drive_decoded(seed: u64, episodes: usize, steps: usize, max_ref: usize, out: &mut dyn Write) {
    use rbx_dom_weak::types::{UniqueId, Variant};
    std::panic::set_hook(Box::new(|_| {}));
    let mut rng = StdRng::seed_from_u64(seed);
    for epi in 0..episodes {
        let format = if epi % 2 == 0 { "binary" } else { "xml" };
        let ep = format!("decoded:{}:{}:{}", format, seed, epi);
        // source DOM: a few instances under DataModel, UniqueIds from a small pool (duplicates likely)
        let mut src = WeakDom::new(InstanceBuilder::new("DataModel"));
        let root = src.root_ref();
        let n = rng.gen_range(2..6);
        let mut refs = vec![root];
        for i in 0..n {
            let parent = refs[rng.gen_range(0..refs.len())];
            let label = 100 + i as i64;
            let r = src.insert(
                parent,
                InstanceBuilder::new(CLASSES[(label.rem_euclid(3)) as usize])
                    .with_name(format!("L{}", label))
                    .with_property("Value", Variant::Int32(label as i32)),
            );
            refs.push(r);
        }
        let mut tokens: HashMap<UidKey, i64> = HashMap::new();
        for r in refs.iter().skip(1) {
            if rng.gen_bool(0.8) {
                let t = [1, 2, 3, 6][rng.gen_range(0..4)];
                let id = uid_of_token(t);
                tokens.insert(uid_key(&id), t);
                // direct property write: bypasses the bookkeeping on purpose, so the file holds duplicates
                src.get_by_ref_mut(*r).unwrap().properties.insert("UniqueId".into(), Variant::UniqueId(id));
            }
        }
        let kids: Vec<Ref> = src.root().children().to_vec();
        let decoded: Result<WeakDom, String> = if format == "binary" {
            crate::bincase::write_bin(&src, &kids, rbx_binary::CompressionType::None).and_then(|d| crate::bincase::read_bin(&d))
        } else {
            crate::xmlcase::write_xml(&src, &kids, "WriteUnknown").and_then(|d| crate::xmlcase::read_xml(&d, "ReadUnknown"))
        };
        let mut w = World::new(max_ref, 1);
        emit(out, &ep, json!({"op": "reset"}));
        let mut lab = 1;
        let b = random_builder(&w, &mut rng, lab, 2, 3);
        lab += 10;
        for ev in w.exec(&json!({"op": "new", "d": 2, "b": b})) {
            emit(out, &ep, ev);
        }
        match decoded {
            Ok(dom) => {
                // register the decoded instances breadth-first from the root
                let mut queue: std::collections::VecDeque<Ref> = [dom.root_ref()].into();
                while let Some(r) = queue.pop_front() {
                    w.register(r);
                    queue.extend(dom.get_by_ref(r).unwrap().children().iter().copied());
                }
                w.tokens.extend(tokens);
                w.doms[0] = Some(dom);
                w.root_label_override = true;
                let post = w.project();
                emit(out, &ep, json!({"op": "decoded", "d": 1, "format": format, "next": w.refs.len() + 1, "outcome": "ok", "post": post}));
            }
            Err(e) => {
                emit(out, &ep, json!({"op": "decoded", "d": 1, "format": format, "outcome": "err", "detail": e}));
                continue;
            }
        }
        random_steps(&mut w, &mut rng, steps, 3, &mut lab, &ep, out);
    }
}

//! C06 (binary vs XML encodings of one DOM) and C15 (the four migration paths).

use std::io::Write;

use rand::rngs::StdRng;
use rand::SeedableRng;
use rbx_binary::CompressionType;
use rbx_dom_weak::types::{BrickColor, Content, Enum, Font, FontStyle, FontWeight, Ref, Variant};
use rbx_dom_weak::{InstanceBuilder, WeakDom};
use rbx_reflection::{PropertyKind, PropertySerialization, ReflectionDatabase};
use serde_json::{json, Value};

use crate::bincase::{outcome_class, read_bin, write_bin};
use crate::gen;
use crate::pval::pforest;
use crate::xmlcase::{read_xml, write_xml, xml_types};

fn after_of(r: Result<WeakDom, String>) -> Value {
    match r {
        Ok(dom) => {
            let kids: Vec<Ref> = dom.root().children().to_vec();
            json!({"read": "ok", "after": pforest(&dom, &kids)})
        }
        Err(e) => json!({"read": outcome_class(&e), "detail": e}),
    }
}

fn bin_trip(dom: &WeakDom, roots: &[Ref]) -> Value {
    match write_bin(dom, roots, CompressionType::None) {
        Ok(data) => {
            let mut v = after_of(read_bin(&data));
            v["write"] = json!("ok");
            v
        }
        Err(e) => json!({"write": outcome_class(&e), "detail": e}),
    }
}

fn xml_trip(dom: &WeakDom, roots: &[Ref], enc: &str, dec: &str) -> Value {
    match write_xml(dom, roots, enc) {
        Ok(data) => {
            let mut v = after_of(read_xml(&data, dec));
            v["write"] = json!("ok");
            v
        }
        Err(e) => json!({"write": outcome_class(&e), "detail": e}),
    }
}

/// C06: one DOM, both encodings, both decodings; plus conversion there and back.
pub fn run_cross(seed: u64, count: usize, max_instances: usize, convert: bool, out: &mut dyn Write) {
    std::panic::set_hook(Box::new(|_| {}));
    let db = rbx_reflection_database::get();
    let known = gen::known_props(db);
    let mut rng = StdRng::seed_from_u64(seed);
    let types: Vec<_> = xml_types().into_iter().filter(|t| gen::BINARY_TYPES.contains(t)).collect();
    for i in 0..count {
        let spec = gen::DomSpec {
            max_instances,
            max_depth: 4,
            known_classes: true,
            unknown_classes: false,
            types: types.clone(),
            xml_safe: true,
            props_per_instance: 4,
        };
        let dom = gen::random_dom(&mut rng, &spec, &known);
        let roots: Vec<Ref> = dom.root().children().to_vec();
        let mut ev = json!({"ep": format!("cross:{}:{}", seed, i), "op": "cross_case", "before": pforest(&dom, &roots),
                            "bin": bin_trip(&dom, &roots), "xml": xml_trip(&dom, &roots, "IgnoreUnknown", "IgnoreUnknown")});
        if convert {
            // bin -> dom -> xml -> dom  and  xml -> dom -> bin -> dom: nothing the first read produced may be lost
            if let Ok(data) = write_bin(&dom, &roots, CompressionType::None) {
                if let Ok(d1) = read_bin(&data) {
                    let k1: Vec<Ref> = d1.root().children().to_vec();
                    ev["bin_first"] = pforest(&d1, &k1);
                    ev["bin_then_xml"] = xml_trip(&d1, &k1, "IgnoreUnknown", "IgnoreUnknown");
                }
            }
            if let Ok(data) = write_xml(&dom, &roots, "IgnoreUnknown") {
                if let Ok(d1) = read_xml(&data, "IgnoreUnknown") {
                    let k1: Vec<Ref> = d1.root().children().to_vec();
                    ev["xml_first"] = pforest(&d1, &k1);
                    ev["xml_then_bin"] = bin_trip(&d1, &k1);
                }
            }
        }
        serde_json::to_writer(&mut *out, &ev).unwrap();
        out.write_all(b"\n").unwrap();
    }
}

/// Beyond C06: values whose type is not the property's declared type but one both writers convert
/// (Int32 for an Int64 / BrickColor property, Float32 for Float64, EnumItem for Enum).  Same event as a
/// cross case; CrossFormatTrace additionally checks the converted value (clause "converted").
pub fn run_cross_convertible(seed: u64, count: usize, out: &mut dyn Write) {
    use rbx_dom_weak::types::{EnumItem, Variant, VariantType as T};
    use rand::Rng;
    std::panic::set_hook(Box::new(|_| {}));
    let db = rbx_reflection_database::get();
    let known: Vec<gen::KnownProp> = gen::known_props(db)
        .into_iter()
        .filter(|k| matches!(k.ty, T::Int64 | T::Float64 | T::Enum | T::BrickColor | T::ContentId | T::Tags) && k.name != "UniqueId")
        .collect();
    let mut rng = StdRng::seed_from_u64(seed);
    for i in 0..count {
        let mut dom = WeakDom::new(rbx_dom_weak::InstanceBuilder::new("DataModel"));
        let root = dom.root_ref();
        // a Content value for a ContentId property is converted by rbx_xml only; rbx_binary refuses it with a type
        // mismatch (a difference between the codecs that the specification names): such cases are kept apart
        let xml_only = i % 5 == 4;
        for n in 0..rng.gen_range(1..4) {
            let k = loop {
                let k = &known[rng.gen_range(0..known.len())];
                if (k.ty == T::ContentId) == xml_only {
                    break k;
                }
            };
            let v = match k.ty {
                T::Int64 => Variant::Int32(gen::i32_any(&mut rng)),
                T::Float64 => Variant::Float32(gen::f32_any(&mut rng)),
                T::Enum => Variant::EnumItem(EnumItem { ty: "Verif".to_string(), value: rng.gen_range(0..6) }),
                T::ContentId => Variant::Content(match rng.gen_range(0..3) {
                    0 => Content::none(),
                    1 => gen::content_uri(""),
                    _ => gen::content_uri(["rbxassetid://5", "http://x/?a=1&b=<2>"][rng.gen_range(0..2)]),
                }),
                T::Tags => Variant::BinaryString([&b""[..], b"alpha", b"alpha\0beta gamma\0\xc3\xa9"][rng.gen_range(0..3)].to_vec().into()),
                _ => Variant::Int32(gen::BRICK_NUMBERS[rng.gen_range(0..gen::BRICK_NUMBERS.len())] as i32),
            };
            dom.insert(root, rbx_dom_weak::InstanceBuilder::new(k.class.as_str()).with_name(format!("Conv{}", n)).with_property(k.name.as_str(), v));
        }
        let roots: Vec<Ref> = dom.root().children().to_vec();
        let mut ev = json!({"ep": format!("conv:{}:{}", seed, i), "op": "cross_case", "convertible": 1, "before": pforest(&dom, &roots),
                            "bin": bin_trip(&dom, &roots), "xml": xml_trip(&dom, &roots, "IgnoreUnknown", "IgnoreUnknown")});
        if xml_only {
            ev["xml_only"] = json!(1);
        }
        serde_json::to_writer(&mut *out, &ev).unwrap();
        out.write_all(b"\n").unwrap();
    }
}

/// C06: every serializable, non-migrating descriptor (canonical and alias spellings) once, as a
/// one-property instance with a value valid in both formats; several instances per case.
pub fn run_cross_descriptors(seed: u64, per_case: usize, out: &mut dyn Write) {
    std::panic::set_hook(Box::new(|_| {}));
    let db = rbx_reflection_database::get();
    let known = gen::known_props(db);
    let mut rng = StdRng::seed_from_u64(seed);
    for (ci, chunk) in known.chunks(per_case).enumerate() {
        let mut dom = WeakDom::new(InstanceBuilder::new("DataModel"));
        let root = dom.root_ref();
        let mut roots: Vec<Ref> = Vec::new();
        for k in chunk {
            if k.name == "UniqueId" || k.name == "Name" {
                continue;
            }
            if let Some(v) = gen::value_of(k.ty, &mut rng, &roots, true) {
                let b = InstanceBuilder::new(k.class.as_str()).with_name(format!("D{}", roots.len())).with_property(k.name.as_str(), v);
                roots.push(dom.insert(root, b));
            }
        }
        let ev = json!({"ep": format!("crossdesc:{}:{}", seed, ci), "op": "cross_case", "before": pforest(&dom, &roots),
                        "bin": bin_trip(&dom, &roots), "xml": xml_trip(&dom, &roots, "IgnoreUnknown", "IgnoreUnknown")});
        serde_json::to_writer(&mut *out, &ev).unwrap();
        out.write_all(b"\n").unwrap();
    }
}

/// C06: every boundary value of every type under known spellings, through both codecs; independent of the seed.
pub fn run_cross_boundary(k: usize, out: &mut dyn Write) {
    std::panic::set_hook(Box::new(|_| {}));
    let known = gen::known_props(rbx_reflection_database::get());
    for (label, dom) in gen::boundary_doms(&gen::BINARY_TYPES, &known, true, k, false, 6) {
        let roots: Vec<Ref> = dom.root().children().to_vec();
        let ev = json!({"ep": format!("crossbound:{}", label), "op": "cross_case", "before": pforest(&dom, &roots),
                        "bin": bin_trip(&dom, &roots), "xml": xml_trip(&dom, &roots, "IgnoreUnknown", "IgnoreUnknown")});
        serde_json::to_writer(&mut *out, &ev).unwrap();
        out.write_all(b"\n").unwrap();
    }
}

fn empty_db() -> ReflectionDatabase<'static> {
    ReflectionDatabase::new()
}

/// reverse the order of the PROP chunks of an uncompressed file (chunk order variant)
fn reverse_prop_chunks(data: &[u8]) -> Vec<u8> {
    let mut out = data[..32].to_vec();
    let mut pos = 32;
    let mut chunks: Vec<(&[u8], &[u8])> = Vec::new();
    while pos + 16 <= data.len() {
        let clen = u32::from_le_bytes(data[pos + 4..pos + 8].try_into().unwrap()) as usize;
        let len = u32::from_le_bytes(data[pos + 8..pos + 12].try_into().unwrap()) as usize;
        let stored = if clen == 0 { len } else { clen };
        chunks.push((&data[pos..pos + 4], &data[pos..pos + 16 + stored]));
        pos += 16 + stored;
    }
    let first_prop = chunks.iter().position(|c| c.0 == b"PROP");
    let last_prop = chunks.iter().rposition(|c| c.0 == b"PROP");
    if let (Some(a), Some(b)) = (first_prop, last_prop) {
        let mut mid: Vec<_> = chunks[a..=b].to_vec();
        mid.reverse();
        for c in &chunks[..a] {
            out.extend_from_slice(c.1);
        }
        for c in &mid {
            out.extend_from_slice(c.1);
        }
        for c in &chunks[b + 1..] {
            out.extend_from_slice(c.1);
        }
    } else {
        out.extend_from_slice(&data[32..]);
    }
    out
}

/// reverse the order of the property elements inside every <Properties> block
fn reverse_property_elements(text: &str) -> String {
    let mut out = String::new();
    let mut lines = text.lines().peekable();
    while let Some(line) = lines.next() {
        out.push_str(line);
        out.push('\n');
        if line.trim() == "<Properties>" {
            let indent = line.len() - line.trim_start().len();
            let mut elems: Vec<Vec<&str>> = Vec::new();
            while let Some(l) = lines.peek() {
                if l.trim() == "</Properties>" && l.len() - l.trim_start().len() == indent {
                    break;
                }
                let l = lines.next().unwrap();
                let li = l.len() - l.trim_start().len();
                if li == indent + 2 && l.trim_start().starts_with('<') && !l.trim_start().starts_with("</") {
                    elems.push(vec![l]);
                } else if let Some(last) = elems.last_mut() {
                    last.push(l);
                }
            }
            // keep Name first (it is not a migrating property), reverse the rest
            let (name, mut rest): (Vec<_>, Vec<_>) = elems.into_iter().partition(|e| e[0].contains("name=\"Name\""));
            rest.reverse();
            for e in name.into_iter().chain(rest) {
                for l in e {
                    out.push_str(l);
                    out.push('\n');
                }
            }
        }
    }
    out
}

fn legacy_values(op: &str, db: &ReflectionDatabase) -> Vec<Variant> {
    match op {
        "BrickColorToColor" => (0..=1032u16).filter_map(BrickColor::from_number).map(Variant::BrickColor).collect(),
        "IgnoreGuiInsetToScreenInsets" => vec![Variant::Bool(true), Variant::Bool(false)],
        "ContentIdToContent" => ["", "rbxassetid://1818", "rbxasset://textures/face.png", "http://x/?a=1&b=<2>"]
            .iter()
            .map(|s| Variant::ContentId((*s).into()))
            .collect(),
        "FontToFontFace" => {
            let mut items: Vec<u32> = db.enums.get("Font").map(|e| e.items.values().copied().collect()).unwrap_or_default();
            items.sort();
            items.into_iter().map(|v| Variant::Enum(Enum::from_u32(v))).collect()
        }
        _ => Vec::new(),
    }
}

fn explicit_value(op: &str) -> Variant {
    match op {
        "BrickColorToColor" => Variant::Color3uint8(rbx_dom_weak::types::Color3uint8::new(1, 2, 3)),
        "IgnoreGuiInsetToScreenInsets" => Variant::Enum(Enum::from_u32(3)),
        "ContentIdToContent" => Variant::Content(Content::from_uri("rbxassetid://424242")),
        _ => Variant::Font(Font::new("rbxasset://fonts/families/Explicit.json", FontWeight::Thin, FontStyle::Italic)),
    }
}

/// The four migration paths for one DOM (C15): both writers with the database, both readers on a file /
/// document that still carries the legacy name (written without a database), chunk / element order both ways.
fn mig_paths(dom: &WeakDom, roots: &[Ref], nodb: &ReflectionDatabase, with_rbin: bool) -> Value {
    let mut paths = json!({});
    paths["wbin"] = bin_trip(dom, roots);
    paths["wxml"] = xml_trip(dom, roots, "IgnoreUnknown", "IgnoreUnknown");
    let mut buf = Vec::new();
    let w = std::panic::catch_unwind(std::panic::AssertUnwindSafe(|| {
        rbx_binary::Serializer::new().reflection_database(nodb).compression_type(CompressionType::None).serialize(&mut buf, dom, roots)
    }));
    if !with_rbin {
        // a binary file stores one column entry per instance of the class: when only SOME instances carry the new
        // property, a file written without the database gives the others an entry too (the type's neutral value), so
        // the file itself says they carry both and "legacy only" cannot be put before the binary reader
    } else if let Ok(Ok(())) = w {
        paths["rbin"] = after_of(read_bin(&buf));
        paths["rbin_rev"] = after_of(read_bin(&reverse_prop_chunks(&buf)));
    } else {
        paths["rbin"] = json!({"read": "setup-failed"});
    }
    match write_xml(dom, roots, "NoReflection") {
        Ok(data) => {
            paths["rxml"] = after_of(read_xml(&data, "IgnoreUnknown"));
            let rev = reverse_property_elements(&String::from_utf8_lossy(&data));
            paths["rxml_rev"] = after_of(read_xml(rev.as_bytes(), "IgnoreUnknown"));
        }
        Err(e) => paths["rxml"] = json!({"read": "setup-failed", "detail": e}),
    }
    paths
}

/// C15: every Migrate descriptor of the database x every legacy value x {legacy only, legacy + explicit new}
/// through the four paths, chunk/element order both ways on the read paths.
pub fn run_migrations(stride: usize, out: &mut dyn Write) {
    std::panic::set_hook(Box::new(|_| {}));
    let db = rbx_reflection_database::get();
    let nodb = empty_db();
    let known = gen::known_props(db);
    let mut classes: Vec<&str> = db.classes.keys().map(|k| k.as_ref()).collect();
    classes.sort();
    let mut n = 0usize;
    for cname in classes {
        let class = &db.classes[cname];
        let mut names: Vec<&str> = class.properties.keys().map(|k| k.as_ref()).collect();
        names.sort();
        for pname in names {
            let p = &class.properties[pname];
            let mig = match &p.kind {
                PropertyKind::Canonical { serialization: PropertySerialization::Migrate(m) } => m,
                _ => continue,
            };
            let op = format!("{:?}", mig).split("migration: ").nth(1).unwrap_or("").trim_end_matches(" }").to_string();
            // a concrete class to instantiate (abstract bases like BasePart / BaseWrap get a subclass)
            let inst_class = match cname {
                "BasePart" => "Part",
                "BaseWrap" => "WrapTarget",
                other => other,
            };
            // spellings under which the NEW property can be given explicitly: its canonical name and every alias of it
            let mut explicit_names: Vec<String> = vec![mig.new_property_name.clone()];
            for k in &known {
                if k.is_alias && k.canon == mig.new_property_name && k.class == cname && !explicit_names.contains(&k.name) {
                    explicit_names.push(k.name.clone());
                }
            }
            for (vi, legacy) in legacy_values(&op, db).into_iter().enumerate() {
                for explicit_mode in 0..=explicit_names.len() {
                    let with_explicit = explicit_mode > 0;
                    n += 1;
                    if stride > 1 && n % stride != 0 && !matches!(legacy, Variant::Enum(_) | Variant::Bool(_) | Variant::ContentId(_)) {
                        continue;
                    }
                    let mut b = InstanceBuilder::new(inst_class).with_name("M").with_property(pname, legacy.clone());
                    let explicit_name = if with_explicit { explicit_names[explicit_mode - 1].clone() } else { String::new() };
                    if with_explicit {
                        b = b.with_property(explicit_name.as_str(), explicit_value(&op));
                    }
                    let mut dom = WeakDom::new(InstanceBuilder::new("DataModel"));
                    let root = dom.root_ref();
                    let r = dom.insert(root, b);
                    let roots = [r];
                    let mut ev = json!({"ep": format!("mig:{}.{}:{}:{}", cname, pname, vi, explicit_mode), "op": "mig_case",
                                        "class": inst_class, "legacy": pname, "target": mig.new_property_name, "migop": op,
                                        "explicit": with_explicit as u8, "before": pforest(&dom, &roots), "paths": {}});
                    if with_explicit {
                        ev["explicit_name"] = json!(explicit_name);
                    }
                    ev["paths"] = mig_paths(&dom, &roots, &nodb, true);
                    serde_json::to_writer(&mut *out, &ev).unwrap();
                    out.write_all(b"\n").unwrap();
                }
            }
            // siblings: two instances of the class with different legacy values and a bare third one in ONE file; each
            // must end up with the migration of its own value (one event per focused instance, same path results)
            // only values the writers accept on their own take part (what happens to the others is the business of
            // the single-instance cases above)
            let values: Vec<Variant> = legacy_values(&op, db)
                .into_iter()
                .filter(|v| {
                    let mut probe = WeakDom::new(InstanceBuilder::new("DataModel"));
                    let root = probe.root_ref();
                    let r = probe.insert(root, InstanceBuilder::new(inst_class).with_property(pname, v.clone()));
                    write_bin(&probe, &[r], CompressionType::None).is_ok() && write_xml(&probe, &[r], "IgnoreUnknown").is_ok()
                })
                .collect();
            if values.len() >= 2 {
                let step = (values.len() / 5).max(1);
                for j in (0..values.len()).step_by(step) {
                    let mut dom = WeakDom::new(InstanceBuilder::new("DataModel"));
                    let root = dom.root_ref();
                    let a = dom.insert(root, InstanceBuilder::new(inst_class).with_name("A").with_property(pname, values[j].clone()));
                    let b = dom.insert(root, InstanceBuilder::new(inst_class).with_name("B").with_property(pname, values[(j + values.len() / 2 + 1) % values.len()].clone()));
                    let c = dom.insert(root, InstanceBuilder::new(inst_class).with_name("C"));
                    let roots = [a, b, c];
                    let paths = mig_paths(&dom, &roots, &nodb, true);
                    for focus in 1..=2 {
                        let ev = json!({"ep": format!("mig:{}.{}:sib{}:{}", cname, pname, j, focus), "op": "mig_case", "focus": focus,
                                        "class": inst_class, "legacy": pname, "target": mig.new_property_name, "migop": op,
                                        "explicit": 0, "before": pforest(&dom, &roots), "paths": paths.clone()});
                        serde_json::to_writer(&mut *out, &ev).unwrap();
                        out.write_all(b"\n").unwrap();
                    }
                    // mixed siblings: one instance carries the legacy property AND an explicit new value, the other the
                    // legacy property alone, in both orders - what one instance carries must not decide what happens
                    // to the other's column entry
                    for both_first in [true, false] {
                        let mut dom = WeakDom::new(InstanceBuilder::new("DataModel"));
                        let root = dom.root_ref();
                        let v1 = values[j].clone();
                        let v2 = values[(j + values.len() / 2 + 1) % values.len()].clone();
                        let with_both = |n: &str, v: Variant| InstanceBuilder::new(inst_class).with_name(n).with_property(pname, v).with_property(mig.new_property_name.as_str(), explicit_value(&op));
                        let legacy_only = |n: &str, v: Variant| InstanceBuilder::new(inst_class).with_name(n).with_property(pname, v);
                        let (a, b) = if both_first {
                            (dom.insert(root, with_both("A", v1)), dom.insert(root, legacy_only("B", v2)))
                        } else {
                            (dom.insert(root, legacy_only("A", v1)), dom.insert(root, with_both("B", v2)))
                        };
                        let roots = [a, b];
                        let paths = mig_paths(&dom, &roots, &nodb, false);
                        for focus in 1..=2 {
                            let explicit = ((focus == 1) == both_first) as u8;
                            let ev = json!({"ep": format!("mig:{}.{}:mix{}:{}:{}", cname, pname, j, both_first as u8, focus), "op": "mig_case", "focus": focus,
                                            "class": inst_class, "legacy": pname, "target": mig.new_property_name, "migop": op,
                                            "explicit": explicit, "before": pforest(&dom, &roots), "paths": paths.clone()});
                            serde_json::to_writer(&mut *out, &ev).unwrap();
                            out.write_all(b"\n").unwrap();
                        }
                    }
                }
            }
        }
    }

    // several migrating legacy properties on ONE instance (MeshPart: MeshId, TextureID and the inherited BrickColor;
    // WrapLayer: ReferenceMeshId and the inherited CageMeshId), with the explicit new property present for some and
    // absent for the others: each migration is decided on its own.  One event per descriptor, same path results.
    let mut concrete: Vec<&str> = db.classes.keys().map(|k| k.as_ref()).collect();
    concrete.sort();
    for cname in concrete {
        if cname == "BasePart" || cname == "BaseWrap" {
            continue;
        }
        // migrating descriptors along the superclass chain, one per target
        let mut migs: Vec<(String, String, String)> = Vec::new(); // (legacy name, target, op)
        let mut cur = db.classes.get(cname);
        while let Some(c) = cur {
            let mut names: Vec<&str> = c.properties.keys().map(|k| k.as_ref()).collect();
            names.sort();
            for pname in names {
                if let PropertyKind::Canonical { serialization: PropertySerialization::Migrate(m) } = &c.properties[pname].kind {
                    if !migs.iter().any(|x| x.1 == m.new_property_name) {
                        let op = format!("{:?}", m).split("migration: ").nth(1).unwrap_or("").trim_end_matches(" }").to_string();
                        migs.push((pname.to_string(), m.new_property_name.clone(), op));
                    }
                }
            }
            cur = c.superclass.as_ref().and_then(|s| db.classes.get(s.as_ref()));
        }
        let own = db.classes[cname].properties.values().any(|p| matches!(&p.kind, PropertyKind::Canonical { serialization: PropertySerialization::Migrate(_) }));
        if migs.len() < 2 || !own {
            continue;
        }
        let usable = |op: &str, pname: &str| -> Vec<Variant> {
            legacy_values(op, db)
                .into_iter()
                .filter(|v| {
                    let mut probe = WeakDom::new(InstanceBuilder::new("DataModel"));
                    let root = probe.root_ref();
                    let r = probe.insert(root, InstanceBuilder::new(cname).with_property(pname, v.clone()));
                    write_bin(&probe, &[r], CompressionType::None).is_ok() && write_xml(&probe, &[r], "IgnoreUnknown").is_ok()
                })
                .collect()
        };
        for a in 0..migs.len() {
            for b in 0..migs.len() {
                if a == b {
                    continue;
                }
                let (va, vb) = (usable(&migs[a].2, &migs[a].0), usable(&migs[b].2, &migs[b].0));
                if va.is_empty() || vb.is_empty() {
                    continue;
                }
                for mask in 0..4u8 {
                    let mut bld = InstanceBuilder::new(cname)
                        .with_name("MM")
                        .with_property(migs[a].0.as_str(), va[va.len() / 2].clone())
                        .with_property(migs[b].0.as_str(), vb[vb.len() - 1].clone());
                    if mask & 1 != 0 {
                        bld = bld.with_property(migs[a].1.as_str(), explicit_value(&migs[a].2));
                    }
                    if mask & 2 != 0 {
                        bld = bld.with_property(migs[b].1.as_str(), explicit_value(&migs[b].2));
                    }
                    let mut dom = WeakDom::new(InstanceBuilder::new("DataModel"));
                    let root = dom.root_ref();
                    let r = dom.insert(root, bld);
                    let roots = [r];
                    let paths = mig_paths(&dom, &roots, &nodb, true);
                    for (which, m) in [(0u8, &migs[a]), (1u8, &migs[b])] {
                        let explicit = (mask >> which) & 1;
                        let ev = json!({"ep": format!("mig:{}.{}+{}:multi{}:{}", cname, migs[a].0, migs[b].0, mask, which), "op": "mig_case",
                                        "class": cname, "legacy": m.0, "target": m.1, "migop": m.2,
                                        "explicit": explicit, "before": pforest(&dom, &roots), "paths": paths.clone()});
                        serde_json::to_writer(&mut *out, &ev).unwrap();
                        out.write_all(b"\n").unwrap();
                    }
                }
            }
        }
    }
}

/// Huge exact-identity forests through both codecs, logged by fingerprint (see bincase::run_huge).
pub fn run_huge(seed: u64, count: usize, out: &mut dyn Write) {
    std::panic::set_hook(Box::new(|_| {}));
    let mut rng = StdRng::seed_from_u64(seed);
    for i in 0..count {
        let dom = gen::huge_dom(&mut rng, i + seed as usize);
        let roots: Vec<Ref> = dom.root().children().to_vec();
        let fp_of = |r: Result<WeakDom, String>| -> Value {
            match r {
                Ok(d) => {
                    let k: Vec<Ref> = d.root().children().to_vec();
                    json!({"read": "ok", "fp_after": crate::pval::forest_fp(&d, &k)})
                }
                Err(e) => json!({"read": crate::bincase::outcome_class(&e), "detail": e}),
            }
        };
        let bin = fp_of(write_bin(&dom, &roots, CompressionType::Lz4).and_then(|d| read_bin(&d)));
        let xml = fp_of(write_xml(&dom, &roots, "WriteUnknown").and_then(|d| read_xml(&d, "ReadUnknown")));
        let ev = json!({"ep": format!("crosshuge:{}:{}", seed, i), "op": "cross_fp", "fp_before": crate::pval::forest_fp(&dom, &roots), "bin": bin, "xml": xml});
        serde_json::to_writer(&mut *out, &ev).unwrap();
        out.write_all(b"\n").unwrap();
    }
}

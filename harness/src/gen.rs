//! Seeded generators of values and DOMs.  They choose inputs only; no expected outputs live here.

use rand::rngs::StdRng;
use rand::seq::SliceRandom;
use rand::Rng;
use rbx_dom_weak::types::*;
use rbx_dom_weak::{InstanceBuilder, WeakDom};
use rbx_reflection::{DataType, PropertyKind, PropertySerialization, ReflectionDatabase};

pub const F32_SPECIAL: [u32; 22] = [
    0x0000_0000, 0x8000_0000, 0x3f80_0000, 0xbf80_0000, 0x7f80_0000, 0xff80_0000, 0x7fc0_0000, 0xffc0_0000,
    0x7f80_0001, 0x7fff_ffff, 0xffc1_2345, 0x0000_0001, 0x8000_0001, 0x007f_ffff, 0x0080_0000, 0x7f7f_ffff,
    0xff7f_ffff, 0x3400_0000, 0x3f7f_ffff, 0x3f80_0001, 0x3e20_0000, 0x4b00_0001,
];

/// A Content holding the URI `s`, built through the library's construction paths in turn (from_uri, From<&str>,
/// From<String>, assignment through value_mut): the inputs must not depend on what one constructor does with a value.
pub fn content_uri(s: &str) -> Content {
    static TURN: std::sync::atomic::AtomicUsize = std::sync::atomic::AtomicUsize::new(0);
    match TURN.fetch_add(1, std::sync::atomic::Ordering::Relaxed) % 4 {
        0 => Content::from_uri(s),
        1 => Content::from(s),
        2 => Content::from(s.to_string()),
        _ => content_direct(s),
    }
}

/// A ContentId holding `s`, through its construction paths in turn (From<&str>, From<String>, assignment through AsMut)
pub fn content_id(s: &str) -> ContentId {
    static TURN: std::sync::atomic::AtomicUsize = std::sync::atomic::AtomicUsize::new(0);
    match TURN.fetch_add(1, std::sync::atomic::Ordering::Relaxed) % 3 {
        0 => ContentId::from(s),
        1 => ContentId::from(s.to_string()),
        _ => {
            let mut c = ContentId::new();
            let inner: &mut String = c.as_mut();
            inner.push_str(s);
            c
        }
    }
}

/// strings a ContentId / Content URI may hold: the text is opaque to the library (case, spaces, markup included)
pub const URI_POOL: [&str; 8] = ["", "rbxassetid://1", "http://x/y?z=1&w=2", "RBXASSETID://12345", "Http://X/Y.PNG", "rbxasset://a b.png", " ", "no scheme at all"];

/// ... always by assignment (no constructor between the generator and the value)
pub fn content_direct(s: &str) -> Content {
    let mut c = Content::none();
    *c.value_mut() = ContentType::Uri(s.to_string());
    c
}

pub fn f32_any(rng: &mut StdRng) -> f32 {
    match rng.gen_range(0..10) {
        0..=2 => f32::from_bits(F32_SPECIAL[rng.gen_range(0..F32_SPECIAL.len())]),
        3..=4 => f32::from_bits(rng.gen()),
        5 => rng.gen_range(-8..8) as f32 * 0.25,
        _ => (rng.gen::<f32>() - 0.5) * 2000.0,
    }
}

/// floats whose decimal text survives every path (used where NaN payloads are out of scope)
pub fn f32_finite(rng: &mut StdRng) -> f32 {
    loop {
        let x = f32_any(rng);
        if x.is_finite() {
            return x;
        }
    }
}

pub fn f64_any(rng: &mut StdRng) -> f64 {
    const S: [u64; 12] = [
        0, 0x8000_0000_0000_0000, 0x3ff0_0000_0000_0000, 0x7ff0_0000_0000_0000, 0xfff0_0000_0000_0000,
        0x7ff8_0000_0000_0000, 0x7ff0_0000_0000_0001, 0xfff8_0000_dead_beef, 1, 0x000f_ffff_ffff_ffff,
        0x7fef_ffff_ffff_ffff, 0x3fb9_9999_9999_999a,
    ];
    match rng.gen_range(0..8) {
        0..=1 => f64::from_bits(S[rng.gen_range(0..S.len())]),
        2..=3 => f64::from_bits(rng.gen()),
        _ => (rng.gen::<f64>() - 0.5) * 1e6,
    }
}

pub fn i32_any(rng: &mut StdRng) -> i32 {
    const S: [i32; 9] = [0, 1, -1, i32::MIN, i32::MAX, i32::MIN + 1, i32::MAX - 1, 255, -256];
    if rng.gen_bool(0.4) { S[rng.gen_range(0..S.len())] } else { rng.gen() }
}

pub fn i64_any(rng: &mut StdRng) -> i64 {
    const S: [i64; 9] = [0, 1, -1, i64::MIN, i64::MAX, i64::MIN + 1, i32::MAX as i64 + 1, i32::MIN as i64 - 1, 1 << 40];
    if rng.gen_bool(0.4) { S[rng.gen_range(0..S.len())] } else { rng.gen() }
}

pub fn bytes_any(rng: &mut StdRng) -> Vec<u8> {
    match rng.gen_range(0..8) {
        0 => Vec::new(),
        1 => vec![0xff, 0xfe, 0x00, 0x80],
        2 => (0..rng.gen_range(200..600)).map(|_| rng.gen()).collect(),
        3 => b"plain ascii".to_vec(),
        _ => (0..rng.gen_range(1..24)).map(|_| rng.gen()).collect(),
    }
}

pub fn string_any(rng: &mut StdRng, xml_safe: bool) -> String {
    const POOL: [&str; 14] = [
        "", " ", "  lead", "trail  ", "a]]>b", "<tag attr=\"v\">&amp;</tag>", "line1\nline2", "cr\rlf\r\n", "\t",
        "h\u{e9}llo w\u{f6}rld", "\u{1F600}", "]]>", "&lt;", "plain",
    ];
    match rng.gen_range(0..10) {
        0..=4 => return POOL[rng.gen_range(0..POOL.len())].to_string(),
        // several fragments in a row: repeated CDATA terminators, markup next to outer whitespace ...
        5 | 6 => return (0..rng.gen_range(2..6)).map(|_| POOL[rng.gen_range(0..POOL.len())]).collect::<Vec<_>>().concat(),
        _ => {}
    }
    let n = rng.gen_range(0..20);
    (0..n)
        .map(|_| loop {
            let c = match rng.gen_range(0..5) {
                0 => rng.gen_range(0x20u32..0x7f),
                1 => rng.gen_range(0xa0u32..0x800),
                2 => rng.gen_range(0x800u32..0xd800),
                3 => rng.gen_range(0x10000u32..0x10ffff),
                _ => *[9u32, 10, 13, 32].choose(rng).unwrap(),
            };
            if let Some(ch) = char::from_u32(c) {
                if !xml_safe || c >= 0x20 || c == 9 || c == 10 || c == 13 {
                    if xml_safe && (c == 0xfffe || c == 0xffff) {
                        continue;
                    }
                    break ch;
                }
            }
        })
        .collect()
}

pub fn vec3(rng: &mut StdRng) -> Vector3 {
    Vector3::new(f32_any(rng), f32_any(rng), f32_any(rng))
}

/// All 24 axis-aligned rotation matrices, by enumeration of signed axis permutations with det +1.
pub fn basic_rotations() -> Vec<Matrix3> {
    let mut out = Vec::new();
    let axes = [[1.0f32, 0.0, 0.0], [0.0, 1.0, 0.0], [0.0, 0.0, 1.0]];
    for px in 0..3 {
        for py in 0..3 {
            for pz in 0..3 {
                if px == py || py == pz || px == pz {
                    continue;
                }
                for sx in [1.0f32, -1.0] {
                    for sy in [1.0f32, -1.0] {
                        for sz in [1.0f32, -1.0] {
                            let r = [
                                [axes[px][0] * sx, axes[px][1] * sx, axes[px][2] * sx],
                                [axes[py][0] * sy, axes[py][1] * sy, axes[py][2] * sy],
                                [axes[pz][0] * sz, axes[pz][1] * sz, axes[pz][2] * sz],
                            ];
                            let det = r[0][0] * (r[1][1] * r[2][2] - r[1][2] * r[2][1])
                                - r[0][1] * (r[1][0] * r[2][2] - r[1][2] * r[2][0])
                                + r[0][2] * (r[1][0] * r[2][1] - r[1][1] * r[2][0]);
                            if det > 0.5 {
                                out.push(Matrix3::new(
                                    Vector3::new(r[0][0], r[0][1], r[0][2]),
                                    Vector3::new(r[1][0], r[1][1], r[1][2]),
                                    Vector3::new(r[2][0], r[2][1], r[2][2]),
                                ));
                            }
                        }
                    }
                }
            }
        }
    }
    out
}

fn nudge(x: f32, rng: &mut StdRng) -> f32 {
    match rng.gen_range(0..6) {
        0 => f32::from_bits(x.to_bits().wrapping_add(1)),
        1 => f32::from_bits(x.to_bits().wrapping_sub(1)),
        2 => x + 1.0e-7,
        3 => x * 0.5,
        _ => x,
    }
}

/// All 48 signed axis permutations: the 24 rotations and their 24 mirror images (determinant -1), which are
/// axis-aligned but NOT rotations and must be stored as nine floats.
pub fn signed_permutations() -> Vec<Matrix3> {
    let mut out = basic_rotations();
    for m in basic_rotations() {
        out.push(Matrix3::new(m.x, m.y, Vector3::new(-m.z.x, -m.z.y, -m.z.z)));
    }
    out
}

pub fn matrix_any(rng: &mut StdRng) -> Matrix3 {
    let basics = basic_rotations();
    match rng.gen_range(0..8) {
        6 => {
            let all = signed_permutations();
            all[rng.gen_range(24..48)]
        }
        7 => {
            // axis-aligned but degenerate: a zero row, a repeated axis
            let all = signed_permutations();
            let m = all[rng.gen_range(0..48)];
            match rng.gen_range(0..3) {
                0 => Matrix3::new(m.x, m.y, Vector3::new(0.0, 0.0, 0.0)),
                1 => Matrix3::new(m.x, m.x, m.z),
                _ => Matrix3::new(m.y, m.x, m.z),
            }
        }
        0 | 1 => basics[rng.gen_range(0..basics.len())],
        2 => {
            let m = basics[rng.gen_range(0..basics.len())];
            let n = |v: Vector3, rng: &mut StdRng| Vector3::new(nudge(v.x, rng), nudge(v.y, rng), nudge(v.z, rng));
            Matrix3::new(n(m.x, rng), n(m.y, rng), n(m.z, rng))
        }
        3 => {
            let s = [0.5f32, 2.0, 0.25, -0.5, 0.999][rng.gen_range(0..5)];
            Matrix3::new(Vector3::new(s, 0.0, 0.0), Vector3::new(0.0, s, 0.0), Vector3::new(0.0, 0.0, s))
        }
        _ => Matrix3::new(vec3(rng), vec3(rng), vec3(rng)),
    }
}

pub fn cframe_any(rng: &mut StdRng) -> CFrame {
    CFrame::new(vec3(rng), matrix_any(rng))
}

pub fn color3_any(rng: &mut StdRng) -> Color3 {
    let c = |rng: &mut StdRng| match rng.gen_range(0..6) {
        0 => 0.0,
        1 => 1.0,
        2 => rng.gen_range(0..=255) as f32 / 255.0,
        3 => f32_any(rng),
        _ => rng.gen::<f32>(),
    };
    Color3::new(c(rng), c(rng), c(rng))
}

pub const BRICK_NUMBERS: [u16; 12] = [1, 5, 21, 23, 24, 26, 37, 194, 199, 1001, 1004, 1032];

pub fn brick_any(rng: &mut StdRng) -> BrickColor {
    loop {
        let n = if rng.gen_bool(0.5) { BRICK_NUMBERS[rng.gen_range(0..BRICK_NUMBERS.len())] } else { rng.gen_range(1..1033) };
        if let Some(b) = BrickColor::from_number(n) {
            return b;
        }
    }
}

pub fn font_any(rng: &mut StdRng) -> Font {
    let weights = [FontWeight::Thin, FontWeight::Regular, FontWeight::Bold, FontWeight::Heavy, FontWeight::Medium];
    let mut f = Font::new(
        ["rbxasset://fonts/families/Arial.json", "", "rbxassetid://12345", "   ", " \t", "\n", " lead", "trail ", "a]]>b", "<&>\"'", "h\u{e9}"][rng.gen_range(0..11)],
        weights[rng.gen_range(0..weights.len())],
        if rng.gen_bool(0.5) { FontStyle::Normal } else { FontStyle::Italic },
    );
    if rng.gen_bool(0.5) {
        f.cached_face_id = Some(["rbxasset://fonts/arial.ttf", "", " ", " \n\t", "x ]]> y"][rng.gen_range(0..5)].to_string());
    }
    f
}

pub fn attr_value(rng: &mut StdRng) -> Variant {
    match rng.gen_range(0..19) {
        0 => Variant::BinaryString(bytes_any(rng).into()),
        1 => Variant::Bool(rng.gen()),
        2 => Variant::Float32(f32_any(rng)),
        3 => Variant::Float64(f64_any(rng)),
        4 => Variant::UDim(UDim::new(f32_any(rng), i32_any(rng))),
        5 => Variant::UDim2(UDim2::new(UDim::new(f32_any(rng), i32_any(rng)), UDim::new(f32_any(rng), i32_any(rng)))),
        6 => Variant::BrickColor(brick_any(rng)),
        7 => Variant::Color3(color3_any(rng)),
        8 => Variant::Vector2(Vector2::new(f32_any(rng), f32_any(rng))),
        9 => Variant::Vector3(vec3(rng)),
        10 => Variant::CFrame(cframe_any(rng)),
        11 => Variant::EnumItem(EnumItem { ty: ["Material", "", "KeyCode"][rng.gen_range(0..3)].to_string(), value: rng.gen() }),
        12 => Variant::NumberSequence(numseq(rng)),
        13 => Variant::ColorSequence(colorseq(rng)),
        14 => Variant::NumberRange(NumberRange::new(f32_any(rng), f32_any(rng))),
        15 => Variant::Rect(Rect::new(Vector2::new(f32_any(rng), f32_any(rng)), Vector2::new(f32_any(rng), f32_any(rng)))),
        16 => Variant::Font(font_any(rng)),
        17 => Variant::String(string_any(rng, false)),
        _ => Variant::Int32(i32_any(rng)),
    }
}

pub fn numseq(rng: &mut StdRng) -> NumberSequence {
    numseq_min(rng, 0)
}

pub fn numseq_min(rng: &mut StdRng, min: usize) -> NumberSequence {
    let n = [0usize, 1, 2, 2, 3, 20][rng.gen_range(0..6)].max(min);
    NumberSequence {
        keypoints: (0..n).map(|_| NumberSequenceKeypoint::new(f32_any(rng), f32_any(rng), f32_any(rng))).collect(),
    }
}

pub fn colorseq(rng: &mut StdRng) -> ColorSequence {
    colorseq_min(rng, 0)
}

pub fn colorseq_min(rng: &mut StdRng, min: usize) -> ColorSequence {
    let n = [0usize, 1, 2, 2, 3, 20][rng.gen_range(0..6)].max(min);
    ColorSequence {
        keypoints: (0..n).map(|_| ColorSequenceKeypoint::new(f32_any(rng), color3_any(rng))).collect(),
    }
}

pub fn attributes_any(rng: &mut StdRng) -> Attributes {
    let mut a = Attributes::new();
    let n = [0usize, 1, 2, 3, 8, 40][rng.gen_range(0..6)];
    for i in 0..n {
        let name = match rng.gen_range(0..6) {
            0 if i == 0 => String::new(),
            1 => string_any(rng, false),
            _ => format!("Attr{}", i),
        };
        a.insert(name, attr_value(rng));
    }
    a
}

pub fn tags_any(rng: &mut StdRng) -> Tags {
    let mut t = Tags::new();
    for _ in 0..rng.gen_range(0..4) {
        t.push(["alpha", "beta gamma", "\u{e9}t\u{e9}", "x"][rng.gen_range(0..4)]);
    }
    t
}

/// A value of the given type (None: the generator has no values of that type).
/// `refs`: referents that Ref/Content values may point at.
pub fn value_of(ty: VariantType, rng: &mut StdRng, refs: &[Ref], xml_safe: bool) -> Option<Variant> {
    let pick_ref = |rng: &mut StdRng| -> Ref {
        match rng.gen_range(0..5) {
            0 => Ref::none(),
            1 => Ref::new(), // points at nothing that exists
            _ if !refs.is_empty() => refs[rng.gen_range(0..refs.len())],
            _ => Ref::none(),
        }
    };
    Some(match ty {
        VariantType::Axes => Variant::Axes(Axes::from_bits(rng.gen_range(0..8)).unwrap()),
        VariantType::Faces => Variant::Faces(Faces::from_bits(rng.gen_range(0..64)).unwrap()),
        VariantType::BinaryString => Variant::BinaryString(bytes_any(rng).into()),
        VariantType::Bool => Variant::Bool(rng.gen()),
        VariantType::BrickColor => Variant::BrickColor(brick_any(rng)),
        VariantType::CFrame => Variant::CFrame(cframe_any(rng)),
        VariantType::Color3 => Variant::Color3(color3_any(rng)),
        VariantType::Color3uint8 => Variant::Color3uint8(Color3uint8::new(rng.gen(), rng.gen(), rng.gen())),
        VariantType::ColorSequence => Variant::ColorSequence(colorseq_min(rng, if xml_safe { 2 } else { 0 })),
        VariantType::ContentId => Variant::ContentId(content_id(URI_POOL[rng.gen_range(0..URI_POOL.len())])),
        VariantType::Enum => Variant::Enum(Enum::from_u32(if rng.gen_bool(0.2) { rng.gen() } else { rng.gen_range(0..2000) })),
        VariantType::Float32 => Variant::Float32(f32_any(rng)),
        VariantType::Float64 => Variant::Float64(f64_any(rng)),
        VariantType::Int32 => Variant::Int32(i32_any(rng)),
        VariantType::Int64 => Variant::Int64(i64_any(rng)),
        VariantType::NumberRange => Variant::NumberRange(NumberRange::new(f32_any(rng), f32_any(rng))),
        VariantType::NumberSequence => Variant::NumberSequence(numseq_min(rng, if xml_safe { 2 } else { 0 })),
        VariantType::PhysicalProperties => Variant::PhysicalProperties(if rng.gen_bool(0.3) {
            PhysicalProperties::Default
        } else {
            PhysicalProperties::Custom(CustomPhysicalProperties {
                density: f32_any(rng),
                friction: f32_any(rng),
                elasticity: f32_any(rng),
                friction_weight: f32_any(rng),
                elasticity_weight: f32_any(rng),
            })
        }),
        VariantType::Ray => Variant::Ray(Ray::new(vec3(rng), vec3(rng))),
        VariantType::Rect => Variant::Rect(Rect::new(Vector2::new(f32_any(rng), f32_any(rng)), Vector2::new(f32_any(rng), f32_any(rng)))),
        VariantType::Ref => Variant::Ref(pick_ref(rng)),
        VariantType::SharedString => Variant::SharedString(SharedString::new(match rng.gen_range(0..4) {
            0 => Vec::new(),
            1 => b"shared-one".to_vec(),
            2 => vec![0xff, 0x00, 0x7f],
            _ => bytes_any(rng),
        })),
        VariantType::String => Variant::String(string_any(rng, xml_safe)),
        VariantType::UDim => Variant::UDim(UDim::new(f32_any(rng), i32_any(rng))),
        VariantType::UDim2 => Variant::UDim2(UDim2::new(UDim::new(f32_any(rng), i32_any(rng)), UDim::new(f32_any(rng), i32_any(rng)))),
        VariantType::Vector2 => Variant::Vector2(Vector2::new(f32_any(rng), f32_any(rng))),
        VariantType::Vector2int16 => Variant::Vector2int16(Vector2int16::new(rng.gen(), rng.gen())),
        VariantType::Vector3 => Variant::Vector3(vec3(rng)),
        VariantType::Vector3int16 => Variant::Vector3int16(Vector3int16::new(rng.gen(), rng.gen(), rng.gen())),
        VariantType::OptionalCFrame => Variant::OptionalCFrame(if rng.gen_bool(0.3) { None } else { Some(cframe_any(rng)) }),
        VariantType::Tags => Variant::Tags(tags_any(rng)),
        VariantType::Attributes => Variant::Attributes(attributes_any(rng)),
        VariantType::Font => Variant::Font(font_any(rng)),
        VariantType::UniqueId => Variant::UniqueId(UniqueId::new(rng.gen(), rng.gen(), if rng.gen_bool(0.3) { -rng.gen_range(1..i64::MAX) } else { rng.gen_range(0..i64::MAX) })),
        VariantType::MaterialColors => {
            let mut m = MaterialColors::new();
            if rng.gen_bool(0.7) {
                m.set_color(TerrainMaterials::Grass, Color3uint8::new(rng.gen(), rng.gen(), rng.gen()));
                m.set_color(TerrainMaterials::Salt, Color3uint8::new(rng.gen(), rng.gen(), rng.gen()));
            }
            Variant::MaterialColors(m)
        }
        VariantType::SecurityCapabilities => Variant::SecurityCapabilities(SecurityCapabilities::from_bits(rng.gen())),
        VariantType::Content => Variant::Content(match rng.gen_range(0..4) {
            0 => Content::none(),
            // rbx_xml cannot write object references (recorded finding); XML cases use URIs only
            1 if !xml_safe => Content::from_referent(pick_ref(rng)),
            _ => content_uri(URI_POOL[rng.gen_range(0..URI_POOL.len())]),
        }),
        _ => return None,
    })
}

/// Deterministic edge values of one type: the special cases of the seeded generators written out in full
/// (they do not depend on the run's seed), followed by `k` draws from a generator seeded by the type alone.
pub fn boundary_values(ty: VariantType, xml_safe: bool, k: usize) -> Vec<Variant> {
    let mut out: Vec<Variant> = Vec::new();
    let origin = Vector3::new(0.0, 0.0, 0.0);
    match ty {
        VariantType::Float32 => out.extend(F32_SPECIAL.iter().map(|b| Variant::Float32(f32::from_bits(*b)))),
        VariantType::Bool => out.extend([Variant::Bool(false), Variant::Bool(true)]),
        VariantType::String => out.extend(
            ["", " ", "  lead", "trail  ", "a]]>b", "<tag attr=\"v\">&amp;</tag>", "line1\nline2", "\t", "\n", " \n\t ", "]]>", "]]>]]>", "&lt;",
             "h\u{e9}llo w\u{f6}rld", "\u{1F600}", "null", "<null></null>", "\r", "\r\n", " \r", "\r x \r", "a\rb"]
                .iter()
                .map(|t| Variant::String(t.to_string())),
        ),
        VariantType::BinaryString => out.extend(
            [Vec::new(), vec![0u8], vec![0xff, 0xfe, 0x00, 0x80], (0..=255u8).collect::<Vec<u8>>(), b" \n".to_vec(), b"plain".to_vec()].into_iter().map(|b| Variant::BinaryString(b.into())),
        ),
        VariantType::SharedString => out.extend(
            [Vec::new(), vec![0u8], vec![0xff, 0x00, 0x7f], (0..=255u8).collect::<Vec<u8>>(), b"shared-one".to_vec()].into_iter().map(|b| Variant::SharedString(SharedString::new(b))),
        ),
        VariantType::Content => out.extend(
            [Content::none(), content_uri(""), content_direct(""), content_uri("rbxassetid://77"), content_uri("rbxasset://a b.png"), content_direct("http://x/?a=1&b=<2>"), content_uri(" "), content_uri("RBXASSETID://12345"), content_direct("Http://X/Y.PNG")]
                .into_iter()
                .map(Variant::Content),
        ),
        VariantType::ContentId => out.extend(URI_POOL.iter().chain(["http://x/y?z=1&w=<2>"].iter()).map(|t| Variant::ContentId(content_id(t)))),
        VariantType::CFrame | VariantType::OptionalCFrame => {
            let mut ms = signed_permutations();
            let all = signed_permutations();
            for m in [all[0], all[5], all[17], all[30], all[41]] {
                ms.push(Matrix3::new(m.x, m.y, origin));
                ms.push(Matrix3::new(m.x, m.x, m.z));
                ms.push(Matrix3::new(Vector3::new(m.x.x * 0.99999994, m.x.y, m.x.z), m.y, m.z));
            }
            ms.push(Matrix3::new(Vector3::new(2.0, 0.0, 0.0), Vector3::new(0.0, 2.0, 0.0), Vector3::new(0.0, 0.0, 2.0)));
            ms.push(Matrix3::new(Vector3::new(0.6, -0.8, 0.0), Vector3::new(0.8, 0.6, 0.0), Vector3::new(0.0, 0.0, 1.0)));
            for (i, m) in ms.into_iter().enumerate() {
                let pos = if i % 7 == 3 { Vector3::new(-0.0, 1e-40, f32::MAX) } else { Vector3::new(i as f32, -0.5, 1024.25) };
                let cf = CFrame::new(pos, m);
                out.push(if ty == VariantType::CFrame { Variant::CFrame(cf) } else { Variant::OptionalCFrame(Some(cf)) });
            }
            if ty == VariantType::OptionalCFrame {
                out.push(Variant::OptionalCFrame(None));
            }
        }
        VariantType::Int32 => out.extend([0, 1, -1, i32::MIN, i32::MAX, i32::MIN + 1, i32::MAX - 1, 255, -256].iter().map(|v| Variant::Int32(*v))),
        VariantType::Int64 => out.extend(
            [0, 1, -1, i64::MIN, i64::MAX, i64::MIN + 1, i32::MAX as i64 + 1, i32::MIN as i64 - 1, 1 << 40, (1 << 53) + 1].iter().map(|v| Variant::Int64(*v)),
        ),
        VariantType::Float64 => out.extend(
            [0u64, 0x8000_0000_0000_0000, 0x3ff0_0000_0000_0000, 0x7ff0_0000_0000_0000, 0xfff0_0000_0000_0000, 0x7ff8_0000_0000_0000, 1,
             0x000f_ffff_ffff_ffff, 0x7fef_ffff_ffff_ffff, 0x3fb9_9999_9999_999a, 0x3fd5_5555_5555_5555]
                .iter()
                .map(|b| Variant::Float64(f64::from_bits(*b))),
        ),
        VariantType::Color3 => out.extend(
            [(0.0, 0.0, 0.0), (1.0, 1.0, 1.0), (0.5, 0.25, 0.125), (1.0 / 255.0, 254.0 / 255.0, 0.1), (2.0, -1.0, 0.0), (f32::INFINITY, f32::NEG_INFINITY, f32::NAN), (0.999999, 0.001, 0.5019608)]
                .iter()
                .map(|c| Variant::Color3(Color3::new(c.0, c.1, c.2))),
        ),
        VariantType::Color3uint8 => out.extend([(0, 0, 0), (255, 255, 255), (1, 2, 3), (128, 127, 254)].iter().map(|c| Variant::Color3uint8(Color3uint8::new(c.0, c.1, c.2)))),
        VariantType::BrickColor => out.extend(BRICK_NUMBERS.iter().filter_map(|n| BrickColor::from_number(*n)).map(Variant::BrickColor)),
        VariantType::Enum => out.extend([0u32, 1, 255, 256, 65536, i32::MAX as u32, u32::MAX].iter().map(|v| Variant::Enum(Enum::from_u32(*v)))),
        VariantType::Axes => out.extend((0..8u8).filter_map(Axes::from_bits).map(Variant::Axes)),
        VariantType::Faces => out.extend([0u8, 1, 2, 4, 8, 16, 32, 63, 42].iter().filter_map(|b| Faces::from_bits(*b)).map(Variant::Faces)),
        VariantType::SecurityCapabilities => out.extend([0u64, 1, u64::MAX, 1 << 63, 0xdead_beef_0000_0001].iter().map(|b| Variant::SecurityCapabilities(SecurityCapabilities::from_bits(*b)))),
        VariantType::UniqueId => out.extend(
            [(0u32, 0u32, 0i64), (1, 2, 3), (u32::MAX, u32::MAX, i64::MAX), (7, 8, -1), (0x0102_0304, 0x0506_0708, 0x090a_0b0c_0d0e_0f10), (9, 9, i64::MIN + 1)]
                .iter()
                .map(|u| Variant::UniqueId(UniqueId::new(u.0, u.1, u.2))),
        ),
        VariantType::PhysicalProperties => {
            out.push(Variant::PhysicalProperties(PhysicalProperties::Default));
            for v in [0.0f32, 1.0, -0.0, f32::INFINITY, f32::NAN, 0.7] {
                out.push(Variant::PhysicalProperties(PhysicalProperties::Custom(CustomPhysicalProperties { density: v, friction: 0.3, elasticity: v, friction_weight: 1.0, elasticity_weight: v })));
            }
        }
        VariantType::NumberRange => out.extend(
            [(0.0, 0.0), (-1.5, 1.5), (f32::NEG_INFINITY, f32::INFINITY), (f32::NAN, 1.0), (1.0, f32::NAN), (-0.0, 1e-40)].iter().map(|r| Variant::NumberRange(NumberRange::new(r.0, r.1))),
        ),
        VariantType::Tags => {
            for list in [vec![], vec!["alpha"], vec!["alpha", "beta gamma", "\u{e9}t\u{e9}"], vec!["x", "x"], vec![" lead", "trail "]] {
                let mut t = Tags::new();
                for x in list {
                    t.push(x);
                }
                out.push(Variant::Tags(t));
            }
        }
        VariantType::MaterialColors => {
            out.push(Variant::MaterialColors(MaterialColors::new()));
            let mut m = MaterialColors::new();
            m.set_color(TerrainMaterials::Grass, Color3uint8::new(0, 0, 0));
            m.set_color(TerrainMaterials::Salt, Color3uint8::new(255, 254, 253));
            out.push(Variant::MaterialColors(m));
        }
        _ => {}
    }
    let mut rng: StdRng = rand::SeedableRng::seed_from_u64(0xB0D0_0000 + ty as u64);
    for _ in 0..k {
        if let Some(v) = value_of(ty, &mut rng, &[], xml_safe) {
            out.push(v);
        }
    }
    if xml_safe {
        // rbx_xml cannot write Content object references yet (recorded C02 finding)
        out.retain(|v| !matches!(v, Variant::Content(c) if matches!(c.value(), ContentType::Object(_))));
    }
    out
}

/// Forests that carry every boundary value of every type: under the first database-known canonical property of
/// the type, under the first alias spelling of one, and (with_unknown) under a property of a class the database
/// does not know.  Several instances of the class per forest, so columns and defaults take part.
pub fn boundary_doms(types: &[VariantType], known: &[KnownProp], xml_safe: bool, k: usize, with_unknown: bool, per_dom: usize) -> Vec<(String, WeakDom)> {
    let mut out = Vec::new();
    for ty in types {
        let values = boundary_values(*ty, xml_safe, k);
        if values.is_empty() {
            continue;
        }
        let usable = |p: &&KnownProp| p.ty == *ty && p.name != "UniqueId" && p.name != "Name";
        let mut places: Vec<(String, String)> = Vec::new();
        if let Some(p) = known.iter().filter(usable).find(|p| !p.is_alias) {
            places.push((p.class.clone(), p.name.clone()));
        }
        // every alias / serialized spelling of a Ref or SharedString property (their values are resolved in a second
        // pass of the readers, keyed by name), the first one for the other types
        let all_aliases = matches!(ty, VariantType::Ref | VariantType::SharedString);
        for p in known.iter().filter(usable).filter(|p| p.is_alias).take(if all_aliases { usize::MAX } else { 1 }) {
            places.push((if p.class == "JointInstance" { "Weld".to_string() } else { p.class.clone() }, p.name.clone()));
        }
        if with_unknown {
            places.push(("VerifBoundary".to_string(), format!("B{:?}", ty)));
        }
        for (class, name) in places {
            if *ty == VariantType::Ref {
                // references need targets: five instances of the class in one forest, pointing forwards, backwards, at
                // themselves, at nothing and at an instance that is not part of the forest
                let mut dom = WeakDom::new(InstanceBuilder::new("DataModel"));
                let root = dom.root_ref();
                let ids: Vec<Ref> = (0..5).map(|i| dom.insert(root, InstanceBuilder::new(class.as_str()).with_name(format!("R{}", i)))).collect();
                let targets = [ids[1], ids[0], ids[2], Ref::none(), Ref::new()];
                for (id, t) in ids.iter().zip(targets) {
                    dom.get_by_ref_mut(*id).unwrap().properties.insert(name.as_str().into(), Variant::Ref(t));
                }
                out.push((format!("{:?}.{}.{}.refs", ty, class, name), dom));
                continue;
            }
            for (gi, group) in values.chunks(per_dom).enumerate() {
                let mut dom = WeakDom::new(InstanceBuilder::new("DataModel"));
                let root = dom.root_ref();
                for (i, v) in group.iter().enumerate() {
                    dom.insert(root, InstanceBuilder::new(class.as_str()).with_name(format!("V{}", i)).with_property(name.as_str(), v.clone()));
                }
                out.push((format!("{:?}.{}.{}.{}", ty, class, name, gi), dom));
            }
        }
    }
    out
}

pub const BINARY_TYPES: [VariantType; 36] = [
    VariantType::String, VariantType::BinaryString, VariantType::ContentId, VariantType::Tags, VariantType::MaterialColors,
    VariantType::Attributes, VariantType::Bool, VariantType::Int32, VariantType::Float32, VariantType::Float64,
    VariantType::UDim, VariantType::UDim2, VariantType::Ray, VariantType::Faces, VariantType::Axes, VariantType::BrickColor,
    VariantType::Color3, VariantType::Vector2, VariantType::Vector3, VariantType::CFrame, VariantType::Enum, VariantType::Ref,
    VariantType::Vector3int16, VariantType::NumberSequence, VariantType::ColorSequence, VariantType::NumberRange,
    VariantType::Rect, VariantType::PhysicalProperties, VariantType::Color3uint8, VariantType::Int64,
    VariantType::SharedString, VariantType::OptionalCFrame, VariantType::UniqueId, VariantType::Font,
    VariantType::SecurityCapabilities, VariantType::Content,
];

/// One database-known serializable, non-migrating property: (class, name as written on the
/// instance (canonical or alias spelling), declared type of the canonical descriptor).
#[derive(Clone, Debug)]
pub struct KnownProp {
    pub class: String,
    pub name: String,
    pub ty: VariantType,
    pub is_alias: bool,
    pub canon: String,
}

pub fn known_props(db: &ReflectionDatabase) -> Vec<KnownProp> {
    let mut out = Vec::new();
    let mut classes: Vec<_> = db.classes.keys().collect();
    classes.sort();
    for cname in classes {
        let class = &db.classes[cname];
        let mut names: Vec<_> = class.properties.keys().collect();
        names.sort();
        for pname in names {
            let p = &class.properties[pname];
            let (canon, is_alias) = match &p.kind {
                PropertyKind::Canonical { .. } => (p, false),
                PropertyKind::Alias { alias_for } => match class.properties.get(alias_for.as_ref()) {
                    Some(c) => (c, true),
                    None => continue,
                },
                _ => continue,
            };
            let ser_ok = matches!(
                &canon.kind,
                PropertyKind::Canonical { serialization: PropertySerialization::Serializes }
                    | PropertyKind::Canonical { serialization: PropertySerialization::SerializesAs(_) }
            );
            if !ser_ok {
                continue;
            }
            let ty = match &canon.data_type {
                DataType::Value(t) => *t,
                DataType::Enum(_) => VariantType::Enum,
                _ => continue,
            };
            out.push(KnownProp { class: cname.to_string(), name: pname.to_string(), ty, is_alias, canon: canon.name.to_string() });
        }
    }
    out
}

pub struct DomSpec {
    pub max_instances: usize,
    pub max_depth: usize,
    pub known_classes: bool,
    pub unknown_classes: bool,
    pub types: Vec<VariantType>,
    pub xml_safe: bool,
    pub props_per_instance: usize,
}

/// Build a random DOM; returns the DOM and the list of all instance refs under the root.
pub fn random_dom(rng: &mut StdRng, spec: &DomSpec, known: &[KnownProp]) -> WeakDom {
    let mut dom = WeakDom::new(InstanceBuilder::new("DataModel"));
    let root = dom.root_ref();
    let n = rng.gen_range(1..=spec.max_instances);
    let mut all: Vec<(Ref, usize)> = vec![(root, 0)];
    // choose classes: a few known classes so that same-class columns get several instances
    let class_pool: Vec<String> = {
        let mut pool = Vec::new();
        if spec.known_classes && !known.is_empty() {
            for _ in 0..3 {
                pool.push(known[rng.gen_range(0..known.len())].class.clone());
            }
            pool.push("Folder".to_string());
            pool.push("Part".to_string());
        }
        if spec.unknown_classes {
            pool.push("VerifUnknownA".to_string());
            pool.push("VerifUnknownB".to_string());
        }
        pool
    };
    let mut created: Vec<Ref> = Vec::new();
    for i in 0..n {
        let candidates: Vec<&(Ref, usize)> = all.iter().filter(|(_, d)| *d < spec.max_depth).collect();
        let (parent, depth) = *candidates[rng.gen_range(0..candidates.len())];
        let class = class_pool[rng.gen_range(0..class_pool.len())].clone();
        let name = match rng.gen_range(0..5) {
            0 => string_any(rng, spec.xml_safe),
            1 => class.clone(),
            _ => format!("Inst{}", i),
        };
        let r = dom.insert(parent, InstanceBuilder::new(class.as_str()).with_name(name));
        all.push((r, depth + 1));
        created.push(r);
    }
    // properties (after creation so that Ref values can point anywhere, including forward)
    let focus = if rng.gen_bool(0.4) { VariantType::SharedString } else { spec.types[rng.gen_range(0..spec.types.len())] };
    for r in created.clone() {
        let class = dom.get_by_ref(r).unwrap().class.to_string();
        let is_unknown = class.starts_with("VerifUnknown");
        let mut props: Vec<(String, Variant)> = Vec::new();
        let mut used: Vec<String> = Vec::new();
        if is_unknown {
            for _ in 0..rng.gen_range(0..=spec.props_per_instance) {
                // a per-DOM focus type makes several values of one type (equal SharedStrings, Refs to one
                // target, Content objects ...) meet in one file
                let ty = if rng.gen_bool(0.35) { focus } else { spec.types[rng.gen_range(0..spec.types.len())] };
                if let Some(v) = value_of(ty, rng, &created, spec.xml_safe) {
                    let suffix = if rng.gen_bool(0.3) { "_b" } else { "" };
                    props.push((format!("U{:?}{}", ty, suffix), v));
                }
            }
        } else {
            let mine: Vec<&KnownProp> = known
                .iter()
                .filter(|k| k.class == class || is_superclass(&k.class, &class))
                .filter(|k| spec.types.contains(&k.ty))
                .collect();
            if !mine.is_empty() {
                for _ in 0..rng.gen_range(0..=spec.props_per_instance) {
                    let k = mine[rng.gen_range(0..mine.len())];
                    if k.name == "Name" || k.name == "Parent" || k.name == "ClassName" || used.contains(&k.canon) {
                        continue;
                    }
                    used.push(k.canon.clone());
                    if let Some(v) = value_of(k.ty, rng, &created, spec.xml_safe) {
                        props.push((k.name.clone(), v));
                    }
                }
            }
        }
        // two spellings of one logical property on one instance are out of scope here (C08 covers them)
        let inst = dom.get_by_ref_mut(r).unwrap();
        for (k, v) in props {
            if k == "UniqueId" {
                continue;
            }
            inst.properties.insert(k.as_str().into(), v);
        }
    }
    dom
}

pub fn is_superclass(sup: &str, class: &str) -> bool {
    let db = rbx_reflection_database::get();
    let mut cur = db.classes.get(class);
    while let Some(c) = cur {
        if c.name == sup {
            return true;
        }
        cur = c.superclass.as_ref().and_then(|s| db.classes.get(s.as_ref()));
    }
    false
}

/// Structural corner cases the uniform generator reaches rarely: empty selections, deep chains, wide
/// same-class columns, reference cycles and fan-in, equal values meeting in one file, long values.
pub fn shaped_dom(rng: &mut StdRng, xml_safe: bool, scale: bool, known: &[KnownProp]) -> WeakDom {
    let mut dom = WeakDom::new(InstanceBuilder::new("DataModel"));
    let root = dom.root_ref();
    let shared_pool: Vec<SharedString> = vec![
        SharedString::new(b"pool-a".to_vec()),
        SharedString::new(vec![0, 1, 2, 3, 255]),
        SharedString::new(Vec::new()),
    ];
    match if scale { 10 } else { [0usize, 1, 2, 3, 4, 5, 6, 7, 8, 9, 11, 11, 12][rng.gen_range(0..13)] } {
        11 | 12 if !scale => {
            // sibling classes that share property names (with different defaults, even different types): each class
            // gets one instance that sets the property and one that lacks it
            let groups: [&[&str]; 5] = [
                &["TextLabel", "TextButton", "TextBox"],
                &["ImageLabel", "ImageButton"],
                &["Part", "WedgePart", "TrussPart", "SpawnLocation", "Seat"],
                &["IntValue", "NumberValue", "StringValue", "BoolValue", "Vector3Value", "Color3Value"],
                &["Frame", "ScrollingFrame", "CanvasGroup"],
            ];
            let group = groups[rng.gen_range(0..groups.len())];
            let shared: Vec<&KnownProp> = known
                .iter()
                .filter(|k| !k.is_alias && k.name != "Name" && k.name != "UniqueId" && k.ty != VariantType::Ref)
                .filter(|k| group.iter().filter(|c| is_superclass(&k.class, c)).count() >= 2)
                .collect();
            let mut names: Vec<&str> = shared.iter().map(|k| k.name.as_str()).collect();
            names.sort();
            names.dedup();
            names.shuffle(rng);
            names.truncate(rng.gen_range(1..4));
            let mut order: Vec<&str> = group.to_vec();
            order.shuffle(rng);
            for class in order {
                let mut with = InstanceBuilder::new(class).with_name(format!("{}Set", class));
                for n in &names {
                    if let Some(k) = shared.iter().find(|k| k.name == *n && is_superclass(&k.class, class)) {
                        if let Some(v) = value_of(k.ty, rng, &[], xml_safe) {
                            with.add_property(*n, v);
                        }
                    }
                }
                if rng.gen_bool(0.5) {
                    dom.insert(root, with);
                    dom.insert(root, InstanceBuilder::new(class).with_name(format!("{}Bare", class)));
                } else {
                    dom.insert(root, InstanceBuilder::new(class).with_name(format!("{}Bare", class)));
                    dom.insert(root, with);
                }
            }
        }
        10 if rng.gen_bool(0.5) => {
            // other things that come in hundreds: classes, SharedStrings, properties of one instance, children of
            // one parent, keypoints, tags, attributes
            match rng.gen_range(0..6) {
                0 => {
                    for i in 0..rng.gen_range(257..300) {
                        dom.insert(root, InstanceBuilder::new(format!("VerifClass{}", i)).with_name(format!("K{}", i)).with_property("UInt32", Variant::Int32(i)));
                    }
                }
                1 => {
                    let holder = dom.insert(root, InstanceBuilder::new("Folder").with_name("Many"));
                    for i in 0..rng.gen_range(257..300) {
                        let payload = format!("shared payload number {}", i).into_bytes();
                        dom.insert(holder, InstanceBuilder::new("VerifUnknownA").with_name(format!("H{}", i)).with_property("USharedString", Variant::SharedString(SharedString::new(payload))));
                    }
                }
                2 => {
                    let mut b = InstanceBuilder::new("VerifUnknownB").with_name("Wide");
                    for i in 0..rng.gen_range(257..290) {
                        b.add_property(format!("UInt32_{}", i), Variant::Int32(i * 3 - 400));
                    }
                    dom.insert(root, b);
                }
                3 => {
                    let n = rng.gen_range(257..300);
                    let keypoints = (0..n).map(|i| NumberSequenceKeypoint::new(i as f32 / n as f32, (i % 7) as f32, (i % 3) as f32 * 0.25)).collect();
                    dom.insert(root, InstanceBuilder::new("VerifUnknownA").with_name("Seq").with_property("UNumberSequence", Variant::NumberSequence(NumberSequence { keypoints })));
                }
                4 => {
                    let mut tags = Tags::new();
                    for i in 0..rng.gen_range(257..300) {
                        tags.push(&format!("tag{}", i));
                    }
                    dom.insert(root, InstanceBuilder::new("Folder").with_name("Tagged").with_property("Tags", Variant::Tags(tags)));
                }
                _ => {
                    let mut attrs = Attributes::new();
                    for i in 0..rng.gen_range(257..280) {
                        attrs.insert(format!("attr{:03}", i), if i % 2 == 0 { Variant::Int32(i) } else { Variant::Bool(i % 3 == 0) });
                    }
                    dom.insert(root, InstanceBuilder::new("Folder").with_name("Attributed").with_property("Attributes", Variant::Attributes(attrs)));
                }
            }
        }
        10 => {
            // several hundred instances: referents, parent links and column positions that need more than one byte
            let n = rng.gen_range(260..340);
            let mut all = vec![root];
            for i in 0..n {
                let parent = if rng.gen_bool(0.5) { root } else { all[rng.gen_range(0..all.len())] };
                let class = if i % 3 == 0 { "VerifUnknownB" } else { "VerifUnknownA" };
                let mut b = InstanceBuilder::new(class).with_name(format!("S{}", i));
                if i % 2 == 0 {
                    b.add_property("UInt32", Variant::Int32(i as i32 * 65_537 - 7));
                }
                all.push(dom.insert(parent, b));
            }
            for i in (1..all.len()).step_by(5) {
                let t = all[rng.gen_range(1..all.len())];
                dom.get_by_ref_mut(all[i]).unwrap().properties.insert("URef".into(), Variant::Ref(t));
            }
        }
        0 => {}
        1 => {
            let mut parent = root;
            for d in 0..rng.gen_range(8..14) {
                parent = dom.insert(parent, InstanceBuilder::new(if d % 3 == 0 { "Folder" } else { "Model" }).with_name(format!("Depth{}", d)));
            }
        }
        2 => {
            let n = rng.gen_range(3..13);
            let refs: Vec<Ref> = (0..n)
                .map(|i| dom.insert(root, InstanceBuilder::new("VerifUnknownA").with_name(format!("Star{}", i)).with_property("UInt32", Variant::Int32(i as i32 * 1000 - 3))))
                .collect();
            for (i, r) in refs.iter().enumerate() {
                dom.get_by_ref_mut(*r).unwrap().properties.insert("URef".into(), Variant::Ref(refs[(i + 1) % n]));
            }
        }
        3 => {
            let n = rng.gen_range(2..8);
            let target = dom.insert(root, InstanceBuilder::new("Folder").with_name("Target"));
            dom.get_by_ref_mut(target).unwrap().properties.insert("USelf".into(), Variant::Ref(target));
            let mut parent = target;
            for i in 0..n {
                let r = dom.insert(parent, InstanceBuilder::new("ObjectValue").with_name(format!("Fan{}", i)).with_property("Value", Variant::Ref(target)));
                if rng.gen_bool(0.5) {
                    parent = r;
                }
            }
        }
        4 => {
            for i in 0..rng.gen_range(2..6) {
                let mut b = InstanceBuilder::new(if rng.gen_bool(0.5) { "VerifUnknownA" } else { "VerifUnknownB" }).with_name(format!("Dup{}", i));
                for j in 0..rng.gen_range(1..4) {
                    b.add_property(format!("USharedString{}", j), Variant::SharedString(shared_pool[rng.gen_range(0..shared_pool.len())].clone()));
                }
                b.add_property("UString", Variant::String("same text".to_string()));
                b.add_property("UBinaryString", Variant::BinaryString(b"same bytes".to_vec().into()));
                dom.insert(root, b);
            }
        }
        5 => {
            let len = if rng.gen_bool(0.15) { 66_000 } else { rng.gen_range(250..1200) };
            let text: String = (0..len).map(|i| (b'a' + (i % 23) as u8) as char).collect();
            let data: Vec<u8> = (0..len).map(|i| (i * 7 % 256) as u8).collect();
            dom.insert(
                root,
                InstanceBuilder::new("VerifUnknownA")
                    .with_name(text.clone())
                    .with_property("UString", Variant::String(text))
                    .with_property("UBinaryString", Variant::BinaryString(data.clone().into()))
                    .with_property("USharedString", Variant::SharedString(SharedString::new(data))),
            );
        }
        6 => {
            let n = rng.gen_range(4..11);
            for i in 0..n {
                let mut b = InstanceBuilder::new("Part").with_name(format!("P{}", i));
                b.add_property("Size", Variant::Vector3(vec3(rng)));
                b.add_property("CFrame", Variant::CFrame(cframe_any(rng)));
                b.add_property("Transparency", Variant::Float32(f32_any(rng)));
                b.add_property("Anchored", Variant::Bool(rng.gen()));
                if rng.gen_bool(0.5) {
                    b.add_property("Color", Variant::Color3(color3_any(rng)));
                }
                dom.insert(root, b);
            }
        }
        7 => {
            let mut all = vec![root];
            for i in 0..rng.gen_range(12..22) {
                let parent = all[rng.gen_range(0..all.len())];
                let class = ["Folder", "Model", "VerifUnknownA", "StringValue", "IntValue"][rng.gen_range(0..5)];
                let mut b = InstanceBuilder::new(class).with_name(format!("W{}", i));
                match class {
                    "StringValue" => b.add_property("Value", Variant::String(string_any(rng, xml_safe))),
                    "IntValue" => b.add_property("Value", Variant::Int64(i64_any(rng))),
                    "VerifUnknownA" => b.add_property("UInt32", Variant::Int32(i32_any(rng))),
                    _ => {}
                }
                all.push(dom.insert(parent, b));
            }
        }
        8 => {
            for i in 0..rng.gen_range(2..5) {
                let class = ["UnionOperation", "MeshPart", "Model"][rng.gen_range(0..3)];
                let prop = match class {
                    "Model" => "ModelMeshData",
                    _ => "PhysicalConfigData",
                };
                let mut b = InstanceBuilder::new(class).with_name(format!("Shared{}", i));
                b.add_property(prop, Variant::SharedString(shared_pool[rng.gen_range(0..2)].clone()));
                dom.insert(root, b);
            }
        }
        _ => {
            let long: String = (0..300).map(|i| if i % 50 == 49 { ' ' } else { 'n' }).collect();
            for name in ["", " ", "dup", "dup", long.as_str(), "\u{1F600}\u{e9}", "a]]>b", "&<>\"'"] {
                if rng.gen_bool(0.7) {
                    dom.insert(root, InstanceBuilder::new("Folder").with_name(name));
                }
            }
        }
    }
    dom
}

/// Forests far above the size the specification's judges can take apart: they hold only values that both formats
/// return exactly as written (no normalisation applies), so "the same forest came back" is equality of the two
/// projections, compared through a fingerprint.
pub fn huge_dom(rng: &mut StdRng, kind: usize) -> WeakDom {
    let mut dom = WeakDom::new(InstanceBuilder::new("DataModel"));
    let root = dom.root_ref();
    match kind % 4 {
        0 => {
            // tens of thousands of instances of one class: every interleaved array of the class is long
            let n = rng.gen_range(16_500..18_000);
            let mut all = vec![root];
            for i in 0..n {
                let parent = if i % 3 == 0 { all[rng.gen_range(0..all.len())] } else { root };
                // every instance of the class carries the same property set (a lacking one would gain defaults)
                let b = InstanceBuilder::new("VerifHugeA")
                    .with_name(format!("h{}", i))
                    .with_property("UInt32", Variant::Int32(i as i32 * 7919 - 5))
                    .with_property("UInt64", Variant::Int64(i as i64 * 1_000_003 - (1i64 << 40)))
                    .with_property("UBool", Variant::Bool(i % 10 == 0))
                    .with_property("URef", Variant::Ref(Ref::none()));
                let r = dom.insert(parent, b);
                if i < 4000 {
                    all.push(r);
                }
            }
            for i in (1..all.len()).step_by(17) {
                let t = all[rng.gen_range(1..all.len())];
                dom.get_by_ref_mut(all[i]).unwrap().properties.insert("URef".into(), Variant::Ref(t));
            }
        }
        1 => {
            // values of more than a mebibyte
            let text: String = (0..(1usize << 20) + 37).map(|i| (b'a' + (i % 26) as u8) as char).collect();
            dom.insert(root, InstanceBuilder::new("StringValue").with_name("BigText").with_property("Value", Variant::String(text)));
            let blob: Vec<u8> = (0..2_600_000usize).map(|i| (i * 131 % 256) as u8).collect();
            let shared: Vec<u8> = (0..1_300_000usize).map(|i| (i * 17 % 251) as u8).collect();
            dom.insert(
                root,
                InstanceBuilder::new("VerifHugeB")
                    .with_name("BigBlobs")
                    .with_property("UBinaryString", Variant::BinaryString(blob.into()))
                    .with_property("USharedString", Variant::SharedString(SharedString::new(shared))),
            );
        }
        2 => {
            // sequences with more than 65 535 keypoints, as a property and inside an attribute blob
            let n = 66_000;
            let seq = NumberSequence { keypoints: (0..n).map(|i| NumberSequenceKeypoint::new(i as f32 / n as f32, (i % 11) as f32, (i % 4) as f32 * 0.25)).collect() };
            dom.insert(root, InstanceBuilder::new("VerifHugeC").with_name("LongSeq").with_property("UNumberSequence", Variant::NumberSequence(seq.clone())));
            let mut attrs = Attributes::new();
            attrs.insert("Long".to_string(), Variant::NumberSequence(seq));
            attrs.insert("After".to_string(), Variant::Bool(true));
            dom.insert(root, InstanceBuilder::new("Folder").with_name("LongAttr").with_property("Attributes", Variant::Attributes(attrs)));
        }
        _ => {
            // thousands of instances carrying 16-byte values (UniqueId-sized columns) and many SharedStrings
            let n = rng.gen_range(4_200..5_000);
            for i in 0..n {
                dom.insert(
                    root,
                    InstanceBuilder::new("VerifHugeD")
                        .with_name(format!("d{}", i))
                        .with_property("UVector3", Variant::Vector3(Vector3::new(i as f32, -(i as f32), 0.5)))
                        .with_property("UInt64", Variant::Int64((i as i64) << 33))
                        .with_property("USharedString", Variant::SharedString(SharedString::new(format!("payload {}", i % 700).into_bytes()))),
                );
            }
        }
    }
    dom
}

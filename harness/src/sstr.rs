//! Binding B/C for SharedString.tla (C18) and UniqueIdGen.tla (C12, schedules).
//!
//! `replay`: every schedule printed by TLC is executed with one real OS thread per spec thread,
//! driven in lock-step by a controller; hook H1 parks a thread inside the release->clean-up window
//! so that DropRelease and DropCleanup are separately schedulable exactly as in the specification.
//! After every action the complete intern-table state is projected and logged.
//! `stress`: free-running threads with barriers; the state at each barrier is logged.

use std::cell::RefCell;
use std::collections::HashMap;
use std::io::{BufRead, Write};
use std::sync::mpsc::{channel, Receiver, RecvTimeoutError, Sender};
use std::sync::{Arc, Barrier, Mutex};
use std::time::Duration;

use rand::rngs::StdRng;
use rand::{Rng, SeedableRng};
use rbx_types::SharedString;
use serde_json::{json, Value};

pub fn content_bytes(c: i64) -> Vec<u8> {
    if c == 1 {
        return Vec::new(); // the empty content is a content like any other
    }
    let mut v = vec![b'A' + c as u8; 3 + c as usize];
    v.push(0xff); // not UTF-8
    v
}

fn content_id(bytes: &[u8], num_contents: i64) -> i64 {
    for c in 1..=num_contents {
        if bytes == &content_bytes(c)[..] {
            return c;
        }
    }
    -1
}

type SlotInfo = Option<(Vec<u8>, usize)>; // (bytes as seen through the handle, buffer address)

enum Cmd {
    New { c: i64, i: usize },
    Clone { i: usize, j: usize },
    Drop { i: usize },
    Quit,
}

enum Msg {
    Done(Vec<SlotInfo>),
    InWindow(Vec<SlotInfo>, usize),
    Panicked(String),
}

thread_local! {
    static CTX: RefCell<Option<(Sender<Msg>, Receiver<()>, Vec<SlotInfo>, usize)>> = RefCell::new(None);
}

fn yield_hook(point: &'static str) {
    if point != "drop_release_window" {
        return;
    }
    let taken = CTX.with(|c| c.borrow_mut().take());
    if let Some((tx, resume, info, buf)) = taken {
        let _ = tx.send(Msg::InWindow(info.clone(), buf));
        let _ = resume.recv();
        CTX.with(|c| *c.borrow_mut() = Some((tx, resume, info, buf)));
    }
}

fn infos(slots: &[Option<SharedString>]) -> Vec<SlotInfo> {
    slots
        .iter()
        .map(|s| s.as_ref().map(|h| (h.data().to_vec(), h.verif_buffer_id())))
        .collect()
}

struct Worker {
    cmd: Sender<Cmd>,
    resume: Sender<()>,
    msg: Receiver<Msg>,
    handle: Option<std::thread::JoinHandle<()>>,
}

fn spawn_worker(num_slots: usize) -> Worker {
    let (cmd_tx, cmd_rx) = channel::<Cmd>();
    let (msg_tx, msg_rx) = channel::<Msg>();
    let (res_tx, res_rx) = channel::<()>();
    let handle = std::thread::spawn(move || {
        let mut slots: Vec<Option<SharedString>> = (0..num_slots).map(|_| None).collect();
        let mut res_rx = Some(res_rx);
        while let Ok(cmd) = cmd_rx.recv() {
            let r = std::panic::catch_unwind(std::panic::AssertUnwindSafe(|| match cmd {
                Cmd::New { c, i } => {
                    slots[i] = Some(SharedString::new(content_bytes(c)));
                    true
                }
                Cmd::Clone { i, j } => {
                    slots[j] = slots[i].clone();
                    true
                }
                Cmd::Drop { i } => {
                    let h = slots[i].take();
                    let buf = h.as_ref().map(|h| h.verif_buffer_id()).unwrap_or(0);
                    let info = infos(&slots);
                    CTX.with(|c| *c.borrow_mut() = Some((msg_tx.clone(), res_rx.take().unwrap(), info, buf)));
                    drop(h);
                    let back = CTX.with(|c| c.borrow_mut().take()).unwrap();
                    res_rx = Some(back.1);
                    true
                }
                Cmd::Quit => false,
            }));
            match r {
                Ok(true) => {
                    let _ = msg_tx.send(Msg::Done(infos(&slots)));
                }
                Ok(false) => break,
                Err(e) => {
                    let m = e
                        .downcast_ref::<String>()
                        .cloned()
                        .or_else(|| e.downcast_ref::<&str>().map(|s| s.to_string()))
                        .unwrap_or_default();
                    let _ = msg_tx.send(Msg::Panicked(m));
                    break;
                }
            }
        }
        // leave remaining handles to be dropped here (uncontrolled)
        CTX.with(|c| *c.borrow_mut() = None);
    });
    Worker { cmd: cmd_tx, resume: res_tx, msg: msg_rx, handle: Some(handle) }
}

/// Projection of the real state into the variables of SharedString.tla.
struct Projector {
    num_contents: i64,
    max_buf: usize,
    ids: HashMap<usize, i64>, // buffer address -> spec buffer id (while the address is in use)
    next: i64,
    hashes: HashMap<[u8; 32], i64>,
}

impl Projector {
    fn new(num_contents: i64, max_buf: usize) -> Projector {
        let mut hashes = HashMap::new();
        for c in 1..=num_contents {
            hashes.insert(*blake3::hash(&content_bytes(c)).as_bytes(), c);
        }
        Projector { num_contents, max_buf, ids: HashMap::new(), next: 1, hashes }
    }

    fn id(&mut self, addr: usize) -> i64 {
        if let Some(k) = self.ids.get(&addr) {
            return *k;
        }
        let k = self.next;
        self.next += 1;
        self.ids.insert(addr, k);
        k
    }

    fn project(&mut self, slots: &[Vec<SlotInfo>], pending: &[Option<i64>]) -> Value {
        let entries = rbx_types::verif_shared_string_cache_entries();
        // retire addresses that nothing refers to any more (they may be reused by the allocator)
        let mut in_use: Vec<usize> = entries.iter().map(|e| e.2).collect();
        for t in slots {
            for s in t.iter().flatten() {
                in_use.push(s.1);
            }
        }
        self.ids.retain(|a, _| in_use.contains(a));
        // ids are handed out in the order: handles by (thread, slot), then table entries
        let mut slot_v = Vec::new();
        let mut made_v = Vec::new();
        let mut counts: HashMap<i64, i64> = HashMap::new();
        let mut bcontent: HashMap<i64, i64> = HashMap::new();
        for t in slots {
            let mut sv = Vec::new();
            let mut mv = Vec::new();
            for s in t {
                match s {
                    Some((bytes, addr)) => {
                        let b = self.id(*addr);
                        let c = content_id(bytes, self.num_contents);
                        sv.push(b);
                        mv.push(c);
                        *counts.entry(b).or_insert(0) += 1;
                        let prev = bcontent.insert(b, c);
                        if let Some(p) = prev {
                            if p != c {
                                bcontent.insert(b, -1);
                            }
                        }
                    }
                    None => {
                        sv.push(0);
                        mv.push(0);
                    }
                }
            }
            slot_v.push(sv);
            made_v.push(mv);
        }
        let mut table = vec![0i64; self.num_contents as usize];
        let mut unknown_entries = 0;
        let mut strong_from_table: HashMap<i64, i64> = HashMap::new();
        for (hash, strong, addr) in &entries {
            match self.hashes.get(hash).copied() {
                Some(c) => {
                    let b = self.id(*addr);
                    table[(c - 1) as usize] = b;
                    strong_from_table.insert(b, *strong as i64);
                    bcontent.entry(b).or_insert(c);
                }
                None => unknown_entries += 1,
            }
        }
        let pend: Vec<i64> = pending.iter().map(|p| p.unwrap_or(0)).collect();
        let mut strong = vec![0i64; self.max_buf];
        let mut bc = vec![0i64; self.max_buf];
        for b in 1..=self.max_buf as i64 {
            let by_handles = *counts.get(&b).unwrap_or(&0);
            let s = match strong_from_table.get(&b) {
                Some(s) if *s != by_handles => -1, // Arc count disagrees with the number of handles
                _ => by_handles,
            };
            strong[(b - 1) as usize] = s;
            bc[(b - 1) as usize] = *bcontent.get(&b).unwrap_or(&0);
        }
        json!({"slot": slot_v, "made": made_v, "pending": pend, "table": table, "strong": strong,
               "bcontent": bc, "next": self.next, "unknown_entries": unknown_entries})
    }
}

fn emit(out: &mut dyn Write, ep: &str, mut ev: Value) {
    ev["ep"] = json!(ep);
    serde_json::to_writer(&mut *out, &ev).unwrap();
    out.write_all(b"\n").unwrap();
}

static GLOBAL: Mutex<()> = Mutex::new(());

/// Execute schedules (ndjson {"ep":..,"ops":[..]}) from TLC on real threads.
pub fn replay(num_threads: usize, num_slots: usize, num_contents: i64, max_buf: usize,
              input: &mut dyn BufRead, out: &mut dyn Write) {
    let _g = GLOBAL.lock().unwrap();
    std::panic::set_hook(Box::new(|_| {}));
    rbx_types::verif_set_shared_string_yield(Some(yield_hook));
    for line in input.lines() {
        let line = line.unwrap();
        if line.trim().is_empty() {
            continue;
        }
        let episode: Value = serde_json::from_str(&line).unwrap();
        let ep = episode["ep"].as_str().unwrap().to_string();
        let mut workers: Vec<Worker> = (0..num_threads).map(|_| spawn_worker(num_slots)).collect();
        let mut slots: Vec<Vec<SlotInfo>> = vec![vec![None; num_slots]; num_threads];
        let mut pending: Vec<Option<i64>> = vec![None; num_threads];
        let mut proj = Projector::new(num_contents, max_buf);
        let pre = rbx_types::verif_shared_string_cache_len();
        emit(out, &ep, json!({"op": "reset", "table_len": pre}));
        let mut dead = false;
        for op in episode["ops"].as_array().unwrap() {
            let t = (op["t"].as_i64().unwrap() - 1) as usize;
            let name = op["op"].as_str().unwrap();
            let mut releasing: Option<i64> = None;
            if (pending[t].is_some() && name != "cleanup") || (pending[t].is_none() && name == "cleanup") {
                // the real state has left the schedule's assumptions (a thread is/is not inside the
                // window where the specification says otherwise): log it and end the episode
                let mut ev = op.clone();
                ev["outcome"] = json!("diverged");
                ev["post"] = proj.project(&slots, &pending);
                emit(out, &ep, ev);
                break;
            }
            match name {
                "new" => workers[t].cmd.send(Cmd::New { c: op["c"].as_i64().unwrap(), i: (op["i"].as_i64().unwrap() - 1) as usize }).unwrap(),
                "clone" => workers[t].cmd.send(Cmd::Clone { i: (op["i"].as_i64().unwrap() - 1) as usize, j: (op["j"].as_i64().unwrap() - 1) as usize }).unwrap(),
                "release" => {
                    let i = (op["i"].as_i64().unwrap() - 1) as usize;
                    releasing = slots[t][i].as_ref().map(|s| proj.id(s.1));
                    workers[t].cmd.send(Cmd::Drop { i }).unwrap()
                }
                "release_old" => workers[t].cmd.send(Cmd::Drop { i: (op["i"].as_i64().unwrap() - 1) as usize }).unwrap(),
                "cleanup" => workers[t].resume.send(()).unwrap(),
                _ => panic!("unknown op"),
            }
            let mut ev = op.clone();
            match workers[t].msg.recv_timeout(Duration::from_secs(10)) {
                Ok(Msg::Done(info)) => {
                    slots[t] = info;
                    pending[t] = None;
                    ev["outcome"] = json!("ok");
                }
                Ok(Msg::InWindow(info, _buf)) => {
                    slots[t] = info;
                    pending[t] = releasing;
                    ev["outcome"] = json!("ok");
                }
                Ok(Msg::Panicked(m)) => {
                    ev["outcome"] = json!("panic");
                    ev["site"] = json!(m);
                    dead = true;
                }
                Err(RecvTimeoutError::Timeout) | Err(RecvTimeoutError::Disconnected) => {
                    ev["outcome"] = json!("hang");
                    dead = true;
                }
            }
            ev["post"] = proj.project(&slots, &pending);
            emit(out, &ep, ev);
            if dead {
                break;
            }
        }
        if dead {
            // cannot join a hung thread; leak the workers and stop (the table may be polluted)
            for w in workers.iter_mut() {
                w.handle.take();
            }
            break;
        }
        for w in workers.iter_mut() {
            // release any thread still parked, then quit
            let _ = w.resume.send(());
            let _ = w.cmd.send(Cmd::Quit);
        }
        for w in workers.iter_mut() {
            if let Some(h) = w.handle.take() {
                let _ = h.join();
            }
        }
    }
    rbx_types::verif_set_shared_string_yield(None);
}

/// Free-running threads; the state at every barrier is logged as an "observe" event.
pub fn stress(seed: u64, num_threads: usize, num_slots: usize, num_contents: i64, rounds: usize,
              ops_per_round: usize, pair_drops: usize, out: &mut dyn Write) {
    let _g = GLOBAL.lock().unwrap();
    rbx_types::verif_set_shared_string_yield(None);
    let ep = format!("stress:{}", seed);
    emit(out, &ep, json!({"op": "reset", "table_len": rbx_types::verif_shared_string_cache_len()}));
    let barrier = Arc::new(Barrier::new(num_threads + 1));
    let shared: Arc<Mutex<Vec<Vec<SlotInfo>>>> = Arc::new(Mutex::new(vec![vec![None; num_slots]; num_threads]));
    let bad: Arc<Mutex<Vec<String>>> = Arc::new(Mutex::new(Vec::new()));
    // pair phase: thread 2p makes a handle and gives a clone to thread 2p+1; the two - the only holders of that
    // content - drop at the same moment, over and over; afterwards nobody holds anything
    type Cell = (Mutex<Option<SharedString>>, std::sync::atomic::AtomicUsize);
    let cells: Arc<Vec<Cell>> = Arc::new((0..num_threads / 2 + 1).map(|_| (Mutex::new(None), std::sync::atomic::AtomicUsize::new(0))).collect());
    let pair_stale = Arc::new(std::sync::atomic::AtomicUsize::new(0));
    // burst phase: all threads intern the same fresh content at the same moment, hold it, compare buffers
    let burst_arrive = Arc::new(std::sync::atomic::AtomicUsize::new(0));
    let burst_ids: Arc<Vec<std::sync::atomic::AtomicUsize>> = Arc::new((0..num_threads).map(|_| std::sync::atomic::AtomicUsize::new(0)).collect());
    let burst_split = Arc::new(std::sync::atomic::AtomicUsize::new(0));
    // churn phase: one thread of a pair makes and drops a handle of a content over and over (its buffer dies again
    // and again), the other makes two handles of the same content one after the other and compares their buffers
    let churn_split = Arc::new(std::sync::atomic::AtomicUsize::new(0));
    let churn_done: Arc<Vec<std::sync::atomic::AtomicBool>> = Arc::new((0..num_threads / 2 + 1).map(|_| std::sync::atomic::AtomicBool::new(false)).collect());
    // a panic inside the code under test (it would also poison the table lock) must not stall the run: it is
    // recorded, the partner of a pair is released, and the worker keeps meeting the barriers
    let abort = Arc::new(std::sync::atomic::AtomicBool::new(false));
    let mut handles = Vec::new();
    for t in 0..num_threads {
        let abort = abort.clone();
        let barrier = barrier.clone();
        let shared = shared.clone();
        let bad = bad.clone();
        let cells = cells.clone();
        let pair_stale = pair_stale.clone();
        let burst_arrive = burst_arrive.clone();
        let burst_ids = burst_ids.clone();
        let burst_split = burst_split.clone();
        let churn_split = churn_split.clone();
        let churn_done = churn_done.clone();
        handles.push(std::thread::spawn(move || {
            let mut rng = StdRng::seed_from_u64(seed * 1000 + t as u64);
            let mut slots: Vec<Option<SharedString>> = (0..num_slots).map(|_| None).collect();
            let mut made: Vec<i64> = vec![0; num_slots];
            for round in 0..=rounds {
                let body = std::panic::catch_unwind(std::panic::AssertUnwindSafe(|| {
                if abort.load(std::sync::atomic::Ordering::SeqCst) {
                    return;
                }
                if round < rounds {
                    for _ in 0..ops_per_round {
                        let i = rng.gen_range(0..num_slots);
                        match rng.gen_range(0..3) {
                            0 => {
                                let c = rng.gen_range(1..=num_contents);
                                slots[i] = Some(SharedString::new(content_bytes(c)));
                                made[i] = c;
                            }
                            1 => {
                                let j = rng.gen_range(0..num_slots);
                                if i != j {
                                    slots[j] = slots[i].clone();
                                    made[j] = made[i];
                                }
                            }
                            _ => {
                                if let Some(h) = slots[i].take() {
                                    if h.data() != &content_bytes(made[i])[..] {
                                        bad.lock().unwrap().push(format!("handle of content {} shows other bytes at drop", made[i]));
                                    }
                                    drop(h);
                                }
                            }
                        }
                    }
                } else {
                    for s in slots.iter_mut() {
                        *s = None;
                    }
                    // churn: while the first handle is alive the second must be the same buffer, whatever the partner's
                    // last releases of that content do to the table in between (Dedup)
                    if (t | 1) < num_threads {
                        use std::sync::atomic::Ordering::SeqCst;
                        let pair = t / 2;
                        let content: Vec<u8> = format!("churn-content-{}", pair).into_bytes();
                        if t % 2 == 0 {
                            while !churn_done[pair].load(SeqCst) && !abort.load(SeqCst) {
                                let h = SharedString::new(content.clone());
                                drop(h);
                            }
                        } else {
                            for _ in 0..(pair_drops / 5) {
                                if abort.load(SeqCst) {
                                    break;
                                }
                                let a = SharedString::new(content.clone());
                                let b = SharedString::new(content.clone());
                                if a.verif_buffer_id() != b.verif_buffer_id() {
                                    churn_split.fetch_add(1, SeqCst);
                                }
                                drop(b);
                                drop(a);
                            }
                            churn_done[pair].store(true, SeqCst);
                        }
                    }
                    // burst: every thread interns the same content, fresh for this iteration, at the same moment and
                    // keeps the handle until all have one: live handles with equal contents - one buffer (Dedup)
                    {
                        use std::sync::atomic::Ordering::SeqCst;
                        let burst_n = (pair_drops / 50).min(30_000);
                        let meet = |k: usize| -> bool {
                            burst_arrive.fetch_add(1, SeqCst);
                            while burst_arrive.load(SeqCst) < num_threads * k {
                                if abort.load(SeqCst) {
                                    return false;
                                }
                                std::thread::yield_now();
                            }
                            true
                        };
                        for k in 0..burst_n {
                            if !meet(3 * k + 1) {
                                return;
                            }
                            let h = SharedString::new(format!("burst-content-{}", k % 97).into_bytes());
                            burst_ids[t].store(h.verif_buffer_id() as usize, SeqCst);
                            if !meet(3 * k + 2) {
                                return;
                            }
                            if t == 0 {
                                let first = burst_ids[0].load(SeqCst);
                                if burst_ids.iter().any(|x| x.load(SeqCst) != first) {
                                    burst_split.fetch_add(1, SeqCst);
                                }
                            }
                            if !meet(3 * k + 3) {
                                return;
                            }
                            drop(h);
                        }
                    }
                    let pair = t / 2;
                    if pair_drops > 0 && (t | 1) < num_threads {
                        use std::sync::atomic::Ordering::SeqCst;
                        let (cell, stage) = &cells[pair];
                        // a content no other pair and no slot uses: after both holders have returned from drop it is
                        // quiescent, and the table must not have an entry for it
                        let content: Vec<u8> = format!("pair-content-{}", pair).into_bytes();
                        let my_hash = *blake3::hash(&content).as_bytes();
                        for k in 0..pair_drops {
                            if t % 2 == 0 {
                                let h = SharedString::new(content.clone());
                                *cell.lock().unwrap() = Some(h.clone());
                                stage.store(4 * k + 1, SeqCst);
                                while stage.load(SeqCst) < 4 * k + 2 {
                                    if abort.load(SeqCst) {
                                        return;
                                    }
                                    std::hint::spin_loop();
                                }
                                for _ in 0..(k % 7) {
                                    std::hint::spin_loop();
                                }
                                drop(h);
                                while stage.load(SeqCst) < 4 * k + 3 {
                                    if abort.load(SeqCst) {
                                        return;
                                    }
                                    std::hint::spin_loop();
                                }
                                if rbx_types::verif_shared_string_cache_entries().iter().any(|e| e.0 == my_hash) {
                                    pair_stale.fetch_add(1, SeqCst);
                                    // put the table back in order so that later iterations are independent
                                    drop(SharedString::new(content.clone()));
                                }
                                stage.store(4 * k + 4, SeqCst);
                            } else {
                                while stage.load(SeqCst) < 4 * k + 1 {
                                    if abort.load(SeqCst) {
                                        return;
                                    }
                                    std::hint::spin_loop();
                                }
                                let h = cell.lock().unwrap().take().unwrap();
                                stage.store(4 * k + 2, SeqCst);
                                for _ in 0..(k % 5) {
                                    std::hint::spin_loop();
                                }
                                drop(h);
                                // the partner may still be inside its own drop: it advances the stage only after it
                                stage.store(4 * k + 3, SeqCst);
                                while stage.load(SeqCst) < 4 * k + 4 {
                                    if abort.load(SeqCst) {
                                        return;
                                    }
                                    std::hint::spin_loop();
                                }
                            }
                        }
                    }
                }
                }));
                if let Err(p) = body {
                    abort.store(true, std::sync::atomic::Ordering::SeqCst);
                    let msg = p.downcast_ref::<String>().cloned().or_else(|| p.downcast_ref::<&str>().map(|s| s.to_string())).unwrap_or_default();
                    bad.lock().unwrap().push(format!("panic in SharedString code on thread {}: {}", t, msg));
                    for s in slots.iter_mut() {
                        std::mem::forget(s.take()); // their Drop would meet the poisoned lock
                    }
                }
                shared.lock().unwrap()[t] = std::panic::catch_unwind(std::panic::AssertUnwindSafe(|| infos(&slots))).unwrap_or_else(|_| vec![None; num_slots]);
                barrier.wait(); // everyone quiescent
                barrier.wait(); // controller has observed
            }
        }));
    }
    for round in 0..=rounds {
        barrier.wait();
        let slots = shared.lock().unwrap().clone();
        let pending = vec![None; num_threads];
        let post = match std::panic::catch_unwind(std::panic::AssertUnwindSafe(|| Projector::new(num_contents, 64).project(&slots, &pending))) {
            Ok(p) => p,
            Err(_) => {
                bad.lock().unwrap().push("the intern table could not be inspected (its lock is poisoned)".to_string());
                json!({"slot": [], "made": [], "pending": [], "table": [], "strong": [], "bcontent": [], "next": 0, "unknown_entries": 0})
            }
        };
        emit(out, &ep, json!({"op": "observe", "round": round, "final": round == rounds, "post": post,
                              "pair_stale": pair_stale.load(std::sync::atomic::Ordering::SeqCst),
                              "burst_split": burst_split.load(std::sync::atomic::Ordering::SeqCst),
                              "churn_split": churn_split.load(std::sync::atomic::Ordering::SeqCst),
                              "data_errors": bad.lock().unwrap().clone()}));
        barrier.wait();
    }
    for h in handles {
        let _ = h.join();
    }
}

/// UniqueId::now() from many threads; logs the index sequence each thread obtained.
pub fn stress_uid(num_threads: usize, calls: usize, out: &mut dyn Write) {
    let barrier = Arc::new(Barrier::new(num_threads));
    let mut handles = Vec::new();
    for _ in 0..num_threads {
        let barrier = barrier.clone();
        handles.push(std::thread::spawn(move || {
            barrier.wait();
            let mut v = Vec::with_capacity(calls);
            for _ in 0..calls {
                let id = rbx_types::UniqueId::now().unwrap();
                v.push((id.index(), id.time(), id.random()));
            }
            v
        }));
    }
    emit(out, "uid", json!({"op": "reset"}));
    // all calls, listed in the modification order of the atomic counter (= by returned index);
    // ties (which the specification forbids) keep thread order so that the validator sees them
    let mut all: Vec<(u32, usize, usize)> = Vec::new();
    let mut randoms: Vec<i64> = Vec::new();
    let mut neg = 0;
    for (t, h) in handles.into_iter().enumerate() {
        let v = h.join().unwrap();
        for (k, x) in v.iter().enumerate() {
            all.push((x.0, t + 1, k + 1));
            randoms.push(x.2);
            if x.2 < 0 {
                neg += 1;
            }
        }
    }
    all.sort();
    for (idx, t, k) in all {
        emit(out, "uid", json!({"op": "fetch", "t": t, "k": k, "ret": idx}));
    }
    let _ = neg;
    emit(out, "uid", json!({"op": "randoms", "calls": randoms.len(), "distinct": randoms.iter().collect::<std::collections::HashSet<_>>().len()}));
}

/// C12: a structured family of UniqueIds (base ids and their neighbours: one bit flipped in one part, in two parts at
/// once) - for every ordered pair within a family: ==, hash equality, the size of a set holding both, and what a DOM
/// does when an instance carrying the first and then one carrying the second is inserted.  Judged by UidPairTrace.tla.
pub fn uid_pairs(out: &mut dyn Write) {
    use rbx_dom_weak::types::{UniqueId, Variant};
    use rbx_dom_weak::{InstanceBuilder, WeakDom};
    use std::collections::HashSet;
    use std::hash::{Hash, Hasher};
    std::panic::set_hook(Box::new(|_| {}));
    let parts = |u: &UniqueId| -> Value {
        let mut b = u.index().to_be_bytes().to_vec();
        b.extend_from_slice(&u.time().to_be_bytes());
        b.extend_from_slice(&u.random().to_be_bytes());
        json!(b)
    };
    let hash_of = |u: &UniqueId| -> u64 {
        let mut h = std::collections::hash_map::DefaultHasher::new();
        u.hash(&mut h);
        h.finish()
    };
    let bases: [(u32, u32, i64); 4] = [(7, 20, 1311768467463790320), (0, 0, 0), (1, 0x8000_0001, -5), (u32::MAX, u32::MAX, i64::MIN)];
    let ibits: [u32; 3] = [0, 1, 31];
    let rbits: [u32; 5] = [0, 1, 31, 32, 63];
    let mut n = 0usize;
    for (bi, base) in bases.iter().enumerate() {
        let mut fam: Vec<(u32, u32, i64)> = vec![*base];
        for b in ibits {
            fam.push((base.0 ^ (1 << b), base.1, base.2));
            fam.push((base.0, base.1 ^ (1 << b), base.2));
        }
        for b in rbits {
            fam.push((base.0, base.1, base.2 ^ (1i64 << b)));
        }
        for b1 in ibits {
            for b2 in ibits {
                fam.push((base.0 ^ (1 << b1), base.1 ^ (1 << b2), base.2));
            }
            for b2 in rbits {
                fam.push((base.0 ^ (1 << b1), base.1, base.2 ^ (1i64 << b2)));
                fam.push((base.0, base.1 ^ (1 << b1), base.2 ^ (1i64 << b2)));
            }
        }
        for (x, pa) in fam.iter().enumerate() {
            for (y, pb) in fam.iter().enumerate() {
                // every pair with the base or a one-part neighbour on the left, every seventh of the rest
                if x > 11 && (x * 31 + y) % 7 != 0 {
                    continue;
                }
                let a = UniqueId::new(pa.0, pa.1, pa.2);
                let b = UniqueId::new(pb.0, pb.1, pb.2);
                let mut set = HashSet::new();
                set.insert(a);
                set.insert(b);
                let dom_part = std::panic::catch_unwind(std::panic::AssertUnwindSafe(|| {
                    let mut dom = WeakDom::new(InstanceBuilder::new("DataModel"));
                    let root = dom.root_ref();
                    let ra = dom.insert(root, InstanceBuilder::new("Folder").with_property("UniqueId", Variant::UniqueId(a)));
                    let rb = dom.insert(root, InstanceBuilder::new("Folder").with_property("UniqueId", Variant::UniqueId(b)));
                    let get = |r| match dom.get_by_ref(r).unwrap().properties.get(&"UniqueId".into()) {
                        Some(Variant::UniqueId(u)) => parts(u),
                        _ => json!("missing"),
                    };
                    json!({"first": get(ra), "second": get(rb)})
                }))
                .unwrap_or_else(|_| json!({"first": "panic", "second": "panic"}));
                n += 1;
                let ev = json!({"ep": format!("uidpair:{}:{}:{}", bi, x, y), "op": "uid_pair", "a": parts(&a), "b": parts(&b),
                                "eq": a == b, "hash_eq": hash_of(&a) == hash_of(&b), "set_len": set.len(), "dom": dom_part});
                serde_json::to_writer(&mut *out, &ev).unwrap();
                out.write_all(b"\n").unwrap();
            }
        }
    }
    let _ = n;
}
